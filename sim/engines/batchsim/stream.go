package batchsim

import (
	"context"
	"fmt"
	"io"
	"sort"
	"strings"
	"time"

	"github.com/pingcap/kvproto/pkg/kvrpcpb"
	"github.com/pingcap/kvproto/pkg/tikvpb"
	"google.golang.org/grpc"
	"google.golang.org/grpc/codes"
	"google.golang.org/grpc/connectivity"
	"google.golang.org/grpc/metadata"
	"google.golang.org/grpc/status"
)

// simConn is the simulator's view of one *grpc.ClientConn created through the
// dial hook. The ClientConn itself is real but lazy: it was made by
// grpc.NewClient, nobody ever calls Connect or an RPC on it, so it stays IDLE
// and never touches the network. It is kept real because the library stores it,
// reads its state (connection monitor) and closes it.
type simConn struct {
	cc        *grpc.ClientConn
	target    string
	store     int
	gen       int // pool generation of this target (how many pools were dialled before)
	idx       int // index inside the pool
	uid       string
	closed    bool // Close was observed
	connected bool // the first waitConnReady of this connection has been answered
	// after a break the connection stays unusable for a while: until the instant
	// notReadyUntil waitConnReady fails, and the next failN creations of a stream
	// fail, counted separately for every forwarding target, so that the outcome
	// does not depend on the order in which the library asks for streams of
	// several targets (it ranges over a Go map there). The second one is a count
	// and not a time window because the library retries a failed creation at once,
	// without back-off (see CHECK.md, observations), and creation costs no
	// simulated time here: a window would never end.
	notReadyUntil time.Duration
	failEpoch     int
	failN         int
	pos           map[string]*posFail
	breaks        int
	streams       []*simStream
	seen          []seenID // request ids the server side of this connection has received
}

type posFail struct{ epoch, left int }

type seenID struct {
	id  uint64
	tag string
}

type recvItem struct {
	resp *tikvpb.BatchCommandsResponse
	err  error
	tags []string // payload tags of the responses in resp
}

type outResp struct {
	id  uint64
	tag string
	val string
	// kind of the original request, to answer with the matching response type
	kind string
}

// simStream implements tikvpb.Tikv_BatchCommandsClient.
type simStream struct {
	w        *world
	conn     *simConn
	fwd      string
	connIdx  string
	uid      string
	inbox    []recvItem
	dead     error // set once: every later Recv / Send fails
	notify   chan struct{}
	out      []outResp
	flushing bool
	sends    int
	flushes  int
	diedAt   time.Duration
	bornAt   time.Duration
}

var _ tikvpb.Tikv_BatchCommandsClient = (*simStream)(nil)

func (s *simStream) Header() (metadata.MD, error) { return metadata.MD{}, nil }
func (s *simStream) Trailer() metadata.MD         { return metadata.MD{} }
func (s *simStream) CloseSend() error             { return nil }
func (s *simStream) Context() context.Context     { return context.Background() }
func (s *simStream) SendMsg(m any) error {
	return s.Send(m.(*tikvpb.BatchCommandsRequest))
}
func (s *simStream) RecvMsg(m any) error { return fmt.Errorf("batchsim: RecvMsg is not used") }

// Recv parks the receive loop of the library on a bubble channel until the
// simulator has queued a response batch or an error.
func (s *simStream) Recv() (*tikvpb.BatchCommandsResponse, error) {
	w := s.w
	gid := curGID()
	for {
		w.mu.Lock()
		w.actors[gid] = "recv:" + s.conn.uid + "/" + fwdName(s.fwd)
		if len(s.inbox) > 0 {
			it := s.inbox[0]
			s.inbox = s.inbox[1:]
			for _, tag := range it.tags {
				if c := w.callByTag[tag]; c != nil {
					c.answered = true // the library now holds the response
				}
			}
			w.mu.Unlock()
			if it.err != nil {
				w.sim.Count("recv.error")
			} else {
				w.sim.Count("recv.batch")
			}
			return it.resp, it.err
		}
		if s.dead != nil {
			err := s.dead
			w.mu.Unlock()
			w.sim.Count("recv.error-again")
			return nil, err
		}
		w.mu.Unlock()
		<-s.notify
	}
}

func (s *simStream) wake() {
	select {
	case s.notify <- struct{}{}:
	default:
	}
}

// kill marks the stream broken. Called with w.mu held.
func (s *simStream) killLocked(err error, keepQueued bool) {
	if s.dead != nil {
		return
	}
	s.dead = err
	s.diedAt = s.w.sim.Now()
	if !keepQueued {
		s.inbox = nil
	}
	s.out = nil
	s.wake()
}

func streamBroken(what string) error {
	return status.Error(codes.Unavailable, "batchsim: "+what)
}

// Send is called by the send loop of the library WITH the send lock of the batch
// client held, so it never parks: it encodes the batch as the wire would (the
// library releases the pre-encoded request data right after Send returns),
// decides the fate of the batch and schedules the responses on the simulator.
func (s *simStream) Send(req *tikvpb.BatchCommandsRequest) error {
	w := s.w
	data, err := req.Marshal()
	if err != nil {
		w.violate("harness", "marshal", "request batch does not marshal: "+err.Error())
		return err
	}
	var in tikvpb.BatchCommandsRequest
	if err := in.Unmarshal(data); err != nil {
		w.violate("harness", "unmarshal", "request batch does not unmarshal: "+err.Error())
		return err
	}
	type item struct {
		id   uint64
		tag  string
		kind string
	}
	items := make([]item, 0, len(in.RequestIds))
	for i, id := range in.RequestIds {
		var it item
		it.id = id
		if i < len(in.Requests) {
			it.tag, it.kind = requestTag(in.Requests[i])
			if it.kind == "resolve" {
				w.sim.Count("reach.resolve-requests-on-the-wire")
			}
		}
		items = append(items, it)
	}

	gid := curGID()
	w.mu.Lock()
	if a := w.actors[gid]; !strings.HasPrefix(a, "send:") {
		// the first Send of this send loop: from now on it is named after its pool
		w.actors[gid] = fmt.Sprintf("send:%s/g%d", s.conn.target, s.conn.gen)
	}
	s.sends++
	w.totalSends++
	if s.dead != nil {
		w.mu.Unlock()
		w.sim.Count("send.on-dead-stream")
		return io.EOF
	}
	healthy := w.healthy
	// a batch is lost / ambiguous if one of its requests says so
	fate := "ok"
	var culprit string
	if !healthy {
		for _, it := range items {
			h := w.fates.Intn("send:"+it.tag, 1000)
			if h < w.sc.Net.SendBreak {
				fate, culprit = "break", it.tag
				break
			}
			if h < w.sc.Net.SendBreak+w.sc.Net.AmbigSend {
				fate, culprit = "ambig", it.tag
				break
			}
		}
	}
	now := w.sim.Now()
	tags := make([]string, 0, len(items))
	for _, it := range items {
		tags = append(tags, fmt.Sprintf("%d=%s", it.id, it.tag))
		if c := w.callByTag[it.tag]; c != nil {
			c.sentOn = append(c.sentOn, s.uid)
			c.sentID = it.id
		}
		if fate != "break" {
			s.conn.seen = append(s.conn.seen, seenID{it.id, it.tag})
		}
	}
	w.tracef("send %s fate=%s %v", s.uid, fate, tags)
	if fate == "break" {
		s.killLocked(streamBroken("stream broken on Send ("+culprit+")"), w.fates.Intn("keepq:"+culprit, 1000) < w.sc.Net.KeepQueued)
		s.conn.noteBreakLocked(w, "send:"+culprit)
		w.mu.Unlock()
		w.sim.Count("fault.send-break")
		return io.EOF
	}
	for _, it := range items {
		it := it
		w.scheduleResponseLocked(s, it.id, it.tag, it.kind, now, healthy)
	}
	if fate == "ambig" {
		// the server has the batch and will answer, yet Send reports a failure
		// and the stream dies a little later
		d := time.Duration(50+w.fates.Intn("ambigd:"+culprit, 3000)) * time.Microsecond
		w.mu.Unlock()
		w.sim.Count("fault.send-ambiguous")
		w.sim.Submit("ambig-break:"+s.uid, d, w.tie("ambig:"+culprit), func() {
			w.mu.Lock()
			s.killLocked(streamBroken("stream broken after ambiguous Send ("+culprit+")"), true)
			s.conn.noteBreakLocked(w, "ambig:"+culprit)
			w.mu.Unlock()
		})
		return io.EOF
	}
	w.mu.Unlock()
	w.sim.Count("send.ok")
	w.sim.CountN("send.requests", len(items))
	if len(items) > 1 {
		w.sim.Count("send.multi-request-batch")
	}
	return nil
}

// requestTag extracts the payload tag of a request.
func requestTag(r *tikvpb.BatchCommandsRequest_Request) (tag, kind string) {
	switch c := r.GetCmd().(type) {
	case *tikvpb.BatchCommandsRequest_Request_Get:
		return string(c.Get.GetKey()), "get"
	case *tikvpb.BatchCommandsRequest_Request_BatchGet:
		if ks := c.BatchGet.GetKeys(); len(ks) > 0 {
			return string(ks[0]), "batchget"
		}
		return "", "batchget"
	case *tikvpb.BatchCommandsRequest_Request_RawGet:
		return string(c.RawGet.GetKey()), "rawget"
	case *tikvpb.BatchCommandsRequest_Request_ResolveLock:
		return resolveTag(c.ResolveLock.GetContext().GetRegionId(), c.ResolveLock.GetStartVersion()), "resolve"
	}
	return "", "other"
}

func echoValue(tag, target, fwd string) string { return tag + "|" + target + "|" + fwd }

func makeResponse(o outResp) *tikvpb.BatchCommandsResponse_Response {
	switch o.kind {
	case "batchget":
		return &tikvpb.BatchCommandsResponse_Response{Cmd: &tikvpb.BatchCommandsResponse_Response_BatchGet{
			BatchGet: &kvrpcpb.BatchGetResponse{Pairs: []*kvrpcpb.KvPair{{Key: []byte(o.tag), Value: []byte(o.val)}}}}}
	case "resolve":
		return &tikvpb.BatchCommandsResponse_Response{Cmd: &tikvpb.BatchCommandsResponse_Response_ResolveLock{
			ResolveLock: &kvrpcpb.ResolveLockResponse{Error: &kvrpcpb.KeyError{Abort: o.val}}}}
	case "rawget":
		return &tikvpb.BatchCommandsResponse_Response{Cmd: &tikvpb.BatchCommandsResponse_Response_RawGet{
			RawGet: &kvrpcpb.RawGetResponse{Value: []byte(o.val)}}}
	default:
		return &tikvpb.BatchCommandsResponse_Response{Cmd: &tikvpb.BatchCommandsResponse_Response_Get{
			Get: &kvrpcpb.GetResponse{Value: []byte(o.val)}}}
	}
}

// scheduleResponseLocked decides what the server does with one request.
func (w *world) scheduleResponseLocked(s *simStream, id uint64, tag, kind string, now time.Duration, healthy bool) {
	n := &w.sc.Net
	val := echoValue(tag, s.conn.target, s.fwd)
	o := outResp{id: id, tag: tag, val: val, kind: kind}
	if healthy {
		d := time.Duration(100+w.fates.Intn("hd:"+tag, 900)) * time.Microsecond
		w.sim.Submit("resp:"+tag, d, w.tie("resp:"+tag), func() { w.respond(s, o) })
		return
	}
	// delay
	var d time.Duration
	switch h := w.fates.Intn("slow:"+tag, 1000); {
	case h < n.VerySlow:
		d = time.Duration(1000+w.fates.Intn("d:"+tag, 5000)) * time.Millisecond
		w.sim.Count("fault.very-slow-response")
	case h < n.VerySlow+n.Slow:
		d = time.Duration(20+w.fates.Intn("d:"+tag, 380)) * time.Millisecond
		w.sim.Count("fault.slow-response")
	default:
		d = time.Duration(20+w.fates.Intn("d:"+tag, 3000)) * time.Microsecond
	}
	d += time.Duration(w.fates.Intn("dn:"+tag, 997)) * time.Nanosecond
	h := w.fates.Intn("fate:"+tag, 1000)
	switch {
	case h < n.Drop:
		w.sim.Count("fault.response-dropped")
		w.tracef("server drops response of %s", tag)
		if c := w.callByTag[tag]; c != nil {
			c.dropped = true
		}
	case h < n.Drop+n.RecvBreak:
		wide := w.fates.Intn("wide:"+tag, 1000) < n.ConnWide
		keep := w.fates.Intn("keepq:"+tag, 1000) < n.KeepQueued
		w.sim.Submit("recv-break:"+tag, d, w.tie("resp:"+tag), func() { w.breakStream(s, wide, keep, "recv:"+tag) })
	default:
		w.sim.Submit("resp:"+tag, d, w.tie("resp:"+tag), func() { w.respond(s, o) })
		if h2 := w.fates.Intn("dup:"+tag, 1000); h2 < n.Dup {
			d2 := d + time.Duration(1+w.fates.Intn("dupd:"+tag, 5000))*time.Microsecond
			w.sim.Submit("dup:"+tag, d2, w.tie("dup:"+tag), func() {
				w.sim.Count("fault.duplicate-response")
				w.respond(s, o)
			})
		}
	}
	if h3 := w.fates.Intn("ghost:"+tag, 1000); h3 < n.Ghost {
		g := outResp{id: 1<<40 + uint64(w.fates.Intn("ghostid:"+tag, 1<<20)), tag: "ghost-of-" + tag, val: "ghost", kind: kind}
		if w.fates.Intn("ghostkind:"+tag, 2) == 0 {
			// an "outdated" id: one this connection carried earlier and whose call
			// has already returned. The library hands ids out in increasing order,
			// so such an id can never be pending again. (An id that is still
			// pending, or not yet seen, is never used: answering it with a foreign
			// payload would be a server that lies, which no property covers.)
			var old []uint64
			for _, e := range s.conn.seen {
				if c := w.callByTag[e.tag]; c != nil && e.id != id && c.done() {
					old = append(old, e.id)
				}
			}
			if len(old) > 0 {
				g.id = old[w.fates.Intn("ghostold:"+tag, len(old))]
			}
		}
		dg := time.Duration(10+w.fates.Intn("ghostd:"+tag, 4000)) * time.Microsecond
		w.sim.Submit("ghost:"+tag, dg, w.tie("ghost:"+tag), func() {
			w.sim.Count("fault.unknown-id-response")
			w.respond(s, g)
		})
	}
}

// respond runs on the simulator goroutine at the response's due time.
func (w *world) respond(s *simStream, o outResp) {
	w.mu.Lock()
	defer w.mu.Unlock()
	if s.dead != nil {
		w.sim.Count("resp.lost-stream-dead")
		return
	}
	s.out = append(s.out, o)
	if s.flushing {
		return
	}
	s.flushing = true
	var q time.Duration
	if w.sc.Net.QuantumUs > 0 && !w.healthy {
		q = time.Duration(w.fates.Intn(fmt.Sprintf("q:%s#%d", s.uid, s.flushes), w.sc.Net.QuantumUs*1000)) * time.Nanosecond
	}
	w.sim.Submit("flush:"+s.uid, q, w.tie(fmt.Sprintf("flush:%s#%d", s.uid, s.flushes)), func() { w.flush(s) })
}

// flush hands the collected responses to the library as ONE response batch.
func (w *world) flush(s *simStream) {
	w.mu.Lock()
	defer w.mu.Unlock()
	s.flushing = false
	if s.dead != nil || len(s.out) == 0 {
		return
	}
	out := s.out
	s.out = nil
	key := fmt.Sprintf("%s#%d", s.uid, s.flushes)
	s.flushes++
	// reorder inside the batch
	if w.fates.Intn("shuffle:"+key, 2) == 0 && !w.healthy {
		sort.SliceStable(out, func(i, j int) bool {
			return w.fates.U64("ord:"+out[i].tag) < w.fates.U64("ord:"+out[j].tag)
		})
	}
	resp := &tikvpb.BatchCommandsResponse{}
	var ids, tags []string
	for _, o := range out {
		resp.RequestIds = append(resp.RequestIds, o.id)
		resp.Responses = append(resp.Responses, makeResponse(o))
		ids = append(ids, fmt.Sprintf("%d=%s", o.id, o.tag))
		tags = append(tags, o.tag)
	}
	if w.fates.Intn("health:"+key, 1000) < w.sc.Net.Health {
		w.feedbackSeq++
		resp.HealthFeedback = &kvrpcpb.HealthFeedback{StoreId: uint64(s.conn.store + 1), FeedbackSeqNo: w.feedbackSeq, SlowScore: int32(1 + w.fates.Intn("score:"+key, 100))}
		w.sim.Count("resp.health-feedback")
	}
	if w.fates.Intn("load:"+key, 1000) < w.sc.Net.Load {
		resp.TransportLayerLoad = uint64(w.fates.Intn("loadv:"+key, 400))
	}
	if len(out) > 1 {
		w.sim.Count("resp.multi-response-batch")
	}
	w.tracef("deliver %s %v", s.uid, ids)
	s.inbox = append(s.inbox, recvItem{resp: resp, tags: tags})
	s.wake()
}

// breakStream kills s (and, if wide, every stream of its connection).
func (w *world) breakStream(s *simStream, wide, keepQueued bool, why string) {
	w.mu.Lock()
	defer w.mu.Unlock()
	if s.dead != nil || w.healthy {
		return
	}
	if wide {
		w.sim.Count("fault.conn-break")
		for _, t := range s.conn.streams {
			t.killLocked(streamBroken("connection broken ("+why+")"), keepQueued)
		}
	} else {
		w.sim.Count("fault.recv-break")
		s.killLocked(streamBroken("stream broken ("+why+")"), keepQueued)
	}
	w.tracef("break %s wide=%v why=%s", s.uid, wide, why)
	s.conn.noteBreakLocked(w, why)
}

// failStep is the unit of the "not ready" window after a break (about one
// back-off step of the re-creation loop).
const failStep = 250 * time.Millisecond

// noteBreakLocked decides for how long re-creations on this connection fail.
func (c *simConn) noteBreakLocked(w *world, why string) {
	c.breaks++
	if w.sc.Net.FailCreate > 0 {
		n := w.fates.Intn(fmt.Sprintf("failcreate:%s#%d", c.uid, c.breaks), w.sc.Net.FailCreate+1)
		c.downFor(w, n, fmt.Sprintf("%s#%d", c.uid, c.breaks))
	}
}

func (c *simConn) downFor(w *world, n int, key string) {
	if n <= 0 {
		return
	}
	now := w.sim.Now()
	// some of the n failures as "connection not ready" for a while, the rest as
	// refused stream creations
	k := w.fates.Intn("downsplit:"+key, n+1)
	if k > 0 {
		d := time.Duration(k)*failStep - time.Duration(w.fates.Intn("downd:"+key, int(failStep/2)))
		if t := now + d; t > c.notReadyUntil {
			c.notReadyUntil = t
		}
	}
	c.failEpoch++
	c.failN = n - k
}

// ---- hooks installed into the library ---------------------------------------

func (w *world) dial(target string, opts ...grpc.DialOption) (*grpc.ClientConn, error) {
	cc, err := grpc.NewClient(target, opts...)
	if err != nil {
		return nil, err
	}
	w.mu.Lock()
	n := w.dials[target]
	w.dials[target] = n + 1
	per := int(w.sc.Cfg.ConnCount)
	c := &simConn{cc: cc, target: target, gen: n / per, idx: n % per, store: w.storeOf[target]}
	c.uid = fmt.Sprintf("%s/g%d/c%d", target, c.gen, c.idx)
	w.conns[cc] = c
	w.connList = append(w.connList, c)
	w.tracef("dial %s", c.uid)
	w.mu.Unlock()
	w.sim.Count("conn.dial")
	// watcher: learn about Close the way a stream of a real connection does
	w.wg.Add(1)
	go func() {
		defer w.wg.Done()
		for {
			st := cc.GetState()
			if st == connectivity.Shutdown {
				break
			}
			cc.WaitForStateChange(context.Background(), st)
		}
		d := time.Duration(w.fates.Intn("closed:"+c.uid, 200)) * time.Microsecond
		w.sim.Submit("conn-closed:"+c.uid, d, w.tie("closed:"+c.uid), func() {
			w.mu.Lock()
			c.closed = true
			w.anyConnClosed = true
			if now := w.sim.Now(); w.firstCloseAt == 0 || now < w.firstCloseAt {
				w.firstCloseAt = now
			}
			for _, s := range c.streams {
				s.killLocked(status.Error(codes.Canceled, "grpc: the client connection is closing"), false)
			}
			w.tracef("conn closed %s", c.uid)
			w.mu.Unlock()
			w.sim.Count("conn.closed")
		})
	}()
	return cc, nil
}

func (w *world) waitReady(cc *grpc.ClientConn, timeout time.Duration) error {
	w.mu.Lock()
	defer w.mu.Unlock()
	c := w.conns[cc]
	if c == nil {
		return fmt.Errorf("batchsim: unknown connection")
	}
	if len(c.streams) == 0 && !c.connected && !w.healthy && w.sc.Net.SlowConnect > 0 {
		// The first wait of a connection: no stream and therefore no receive loop of this connection exists yet, so
		// nobody but the send loop (which is calling us with the send lock held) can ask for that lock - simulated
		// time may pass here. Callers whose time-out ends meanwhile give up while their request sits in the built batch.
		c.connected = true
		if w.fates.Intn("slowconn:"+c.uid, 1000) < w.sc.Net.SlowConnect {
			d := time.Duration(1+w.fates.Intn("slowconnd:"+c.uid, 80)) * time.Millisecond
			if d >= timeout {
				d = timeout / 2
			}
			w.sim.Count("fault.slow-first-connect")
			w.tracef("waitConnReady %s: first connect takes %v", c.uid, d)
			w.mu.Unlock()
			time.Sleep(d)
			w.mu.Lock()
		}
	}
	if c.closed || cc.GetState() == connectivity.Shutdown {
		return context.DeadlineExceeded
	}
	if w.sim.Now() < c.notReadyUntil && !w.healthy {
		w.sim.Count("fault.conn-not-ready")
		w.tracef("waitConnReady %s: not ready", c.uid)
		// what the real function returns when the dial timeout elapses; the time
		// itself is not simulated because the function is also called with the
		// send lock held (see CHECK.md)
		return context.DeadlineExceeded
	}
	return nil
}

func (w *world) newStream(cc *grpc.ClientConn, fwd, connIdx string) (tikvpb.Tikv_BatchCommandsClient, error) {
	w.mu.Lock()
	defer w.mu.Unlock()
	c := w.conns[cc]
	if c == nil {
		return nil, fmt.Errorf("batchsim: unknown connection")
	}
	if c.closed || cc.GetState() == connectivity.Shutdown {
		w.sim.Count("stream.create-on-closed-conn")
		return nil, status.Error(codes.Canceled, "grpc: the client connection is closing")
	}
	if c.pos == nil {
		c.pos = map[string]*posFail{}
	}
	pf := c.pos[fwd]
	if pf == nil {
		pf = &posFail{}
		c.pos[fwd] = pf
	}
	if pf.epoch != c.failEpoch {
		pf.epoch, pf.left = c.failEpoch, c.failN
	}
	if pf.left > 0 && !w.healthy {
		pf.left--
		w.sim.Count("fault.stream-create-fails")
		w.tracef("newStream %s fwd=%q: fails", c.uid, fwd)
		return nil, streamBroken("cannot create stream")
	}
	s := &simStream{w: w, conn: c, fwd: fwd, connIdx: connIdx, notify: make(chan struct{}, 1), bornAt: w.sim.Now()}
	// the name must not depend on the order in which streams of different
	// forwarding targets are created (the library ranges over a Go map there)
	nth := 0
	for _, t := range c.streams {
		if t.fwd == fwd {
			nth++
		}
	}
	s.uid = fmt.Sprintf("%s/%s#%d", c.uid, fwdName(fwd), nth)
	c.streams = append(c.streams, s)
	w.sim.Count("stream.created")
	if len(c.streams) > 1 {
		w.sim.Count("stream.re-created-or-forwarded")
	}
	w.tracef("newStream %s", s.uid)
	return s, nil
}

func fwdName(f string) string {
	if f == "" {
		return "direct"
	}
	return f
}
