// Package mvccdiff is the C12 engine: the repository's mock TiKV store and the
// reference MVCC model (refkv) receive the same stream of protocol commands - the
// messages of a few virtual transactions, delivered by a simulated network in
// arbitrary order, duplicated and arbitrarily late - and every answer and the
// full per-key state are compared after every delivered command.
package mvccdiff

import (
	"bytes"
	"context"
	"crypto/sha1"
	"encoding/hex"
	"encoding/json"
	"fmt"
	"math"
	"math/rand"
	"sort"
	"strings"
	"testing"

	"github.com/pingcap/errors"
	"github.com/pingcap/kvproto/pkg/kvrpcpb"
	"github.com/pingcap/kvproto/pkg/metapb"
	"github.com/tikv/client-go/v2/internal/mockstore/mocktikv"
	"github.com/tikv/client-go/v2/tikvrpc"
	"github.com/tikv/client-go/v2/verifsim/refkv"
	"github.com/tikv/client-go/v2/verifsim/simkit"
)

// Cmd is one protocol command (a message of a virtual transaction).
type Cmd struct {
	Op     string      `json:"op"`
	Txn    int         `json:"txn"`            // index of the issuing virtual transaction (-1: a reader / GC)
	Start  uint64      `json:"start"`          // start ts of the transaction the command is about
	Keys   []string    `json:"keys,omitempty"` // keys (prewrite: one mutation per key)
	Ops    []string    `json:"ops,omitempty"`  // prewrite: put del lock insert check per key
	Vals   []string    `json:"vals,omitempty"`
	Acts   []int       `json:"acts,omitempty"` // prewrite: pessimistic action per key
	TS     uint64      `json:"ts,omitempty"`   // commit ts / read ts / for-update ts / safe point / max ts
	TS2    uint64      `json:"ts2,omitempty"`  // current ts (check-txn-status, cleanup) / caller start ts
	Cur    uint64      `json:"cur,omitempty"`
	TTL    uint64      `json:"ttl,omitempty"`
	Prim   string      `json:"primary,omitempty"`
	Flag   bool        `json:"flag,omitempty"`  // rollback_if_not_exist / return values / reverse
	Flag2  bool        `json:"flag2,omitempty"` // resolving pessimistic lock / check existence
	Limit  int         `json:"limit,omitempty"`
	End    string      `json:"end,omitempty"`
	Infos  [][2]uint64 `json:"infos,omitempty"`
	MinC   uint64      `json:"minc,omitempty"`
	NotEx  []bool      `json:"notex,omitempty"`  // pessimistic lock: assertion not-exist per key
	Verify bool        `json:"verify,omitempty"` // rstatus: verify_is_primary of the request
}

// Scenario is the delivered command sequence.
type Scenario struct {
	Cmds []Cmd `json:"cmds"`
}

// Engine implements simkit.Engine.
type Engine struct{}

// LightRuns: tiny runs without pooled library objects (see simkit.RunOne).
func (Engine) LightRuns() bool { return true }

// Name implements simkit.Engine.
func (Engine) Name() string { return "mvccdiff" }

// Decode implements simkit.Engine.
func (Engine) Decode(raw json.RawMessage) (any, error) {
	var sc Scenario
	if err := json.Unmarshal(raw, &sc); err != nil {
		return nil, err
	}
	return &sc, nil
}

var keys = []string{"a", "b", "c", "d"}

type vtxn struct {
	start  uint64
	pess   bool
	prim   string
	ended  bool // an ending command (commit/rollback/cleanup/status/resolve) was issued: no more pessimistic lock requests
	gcd    bool // a GC at or above its start ts was issued: no more prewrites
	fts    uint64
	commit uint64
	mine   []string
}

type gen struct {
	r     *rand.Rand
	phys  uint64
	logic uint64
	txns  []*vtxn
	nval  int
	// gcHeavy: GC is drawn about five times as often as usual (a sixth of the runs)
	gcHeavy bool
}

func (g *gen) ts() uint64 {
	if g.r.Intn(3) == 0 {
		g.phys += uint64([]int{1, 5, 500, 1200, 4000}[g.r.Intn(5)])
		g.logic = 0
	} else {
		g.logic++
	}
	return g.phys<<18 | g.logic
}

func (g *gen) subset(min, max int) []string {
	n := min + g.r.Intn(max-min+1)
	p := g.r.Perm(len(keys))[:n]
	sort.Ints(p)
	out := make([]string, n)
	for i, j := range p {
		out[i] = keys[j]
	}
	return out
}

func (g *gen) val() string { g.nval++; return fmt.Sprintf("v%d", g.nval) }

// next generates one fresh command.
func (g *gen) next() Cmd {
	r := g.r
	if len(g.txns) == 0 || (len(g.txns) < 4 && r.Intn(6) == 0) {
		t := &vtxn{start: g.ts(), pess: r.Intn(2) == 0}
		t.mine = g.subset(1, 3)
		t.prim = t.mine[r.Intn(len(t.mine))]
		g.txns = append(g.txns, t)
	}
	ti := r.Intn(len(g.txns))
	t := g.txns[ti]
	ttl := []uint64{0, 10, 1000, 3000}[r.Intn(4)]
	pickMine := func() []string {
		n := 1 + r.Intn(len(t.mine))
		p := r.Perm(len(t.mine))[:n]
		sort.Ints(p)
		var out []string
		for _, i := range p {
			out = append(out, t.mine[i])
		}
		return out
	}
	for {
		x := r.Intn(100)
		if g.gcHeavy && r.Intn(7) == 0 {
			x = 85 // runs that collect garbage often: histories of several versions per key meet many safe points
		}
		switch {
		case x < 20: // prewrite
			if t.gcd {
				continue
			}
			c := Cmd{Op: "prewrite", Txn: ti, Start: t.start, Prim: t.prim, TTL: ttl, Keys: pickMine()}
			if t.pess {
				if t.fts == 0 {
					t.fts = g.ts()
				}
				c.TS = t.fts
			}
			c.MinC = t.start + 1
			if t.pess {
				c.MinC = c.TS + 1
			}
			for range c.Keys {
				op := []string{"put", "put", "del", "lock", "insert", "check"}[r.Intn(6)]
				if t.pess && op == "check" {
					op = "put"
				}
				c.Ops = append(c.Ops, op)
				c.Vals = append(c.Vals, g.val())
				a := 0
				if t.pess && r.Intn(4) != 0 {
					a = 1 // DO_PESSIMISTIC_CHECK
				}
				c.Acts = append(c.Acts, a)
			}
			return c
		case x < 32: // pessimistic lock
			if !t.pess || t.ended {
				continue
			}
			t.fts = g.ts()
			c := Cmd{Op: "plock", Txn: ti, Start: t.start, Prim: t.prim, TTL: ttl, TS: t.fts, Keys: pickMine(), Flag: r.Intn(2) == 0, Flag2: r.Intn(3) == 0, MinC: t.fts + 1}
			for range c.Keys {
				c.NotEx = append(c.NotEx, r.Intn(5) == 0)
			}
			return c
		case x < 36:
			if !t.pess {
				continue
			}
			fts := t.fts
			if fts == 0 || r.Intn(3) == 0 {
				fts = g.ts()
			}
			return Cmd{Op: "prollback", Txn: ti, Start: t.start, Keys: pickMine(), TS: fts}
		case x < 48: // commit
			if t.commit == 0 {
				t.commit = g.ts()
			}
			t.ended = true
			return Cmd{Op: "commit", Txn: ti, Start: t.start, Keys: pickMine(), TS: t.commit}
		case x < 55:
			t.ended = true
			return Cmd{Op: "rollback", Txn: ti, Start: t.start, Keys: pickMine()}
		case x < 59:
			t.ended = true
			cur := uint64(0)
			if r.Intn(2) == 0 {
				cur = g.ts()
			}
			return Cmd{Op: "cleanup", Txn: ti, Start: t.start, Keys: []string{t.mine[r.Intn(len(t.mine))]}, TS2: cur}
		case x < 69: // check txn status
			t.ended = true
			caller := g.ts()
			if r.Intn(6) == 0 {
				caller = math.MaxUint64
			}
			cur := g.ts()
			if r.Intn(8) == 0 {
				cur = math.MaxUint64
			}
			pk := t.prim
			if r.Intn(8) == 0 {
				pk = keys[r.Intn(len(keys))]
			}
			if r.Intn(3) == 0 {
				// through the RPC handler, as clients send it: verify_is_primary travels in the request, and the key
				// asked about is often a key of the transaction that is NOT its primary (a stale lock of a pessimistic
				// transaction that changed its primary, tidb#42937)
				if r.Intn(2) == 0 {
					pk = t.mine[r.Intn(len(t.mine))]
				}
				return Cmd{Op: "rstatus", Txn: ti, Start: t.start, Prim: pk, TS2: caller, Cur: cur, Flag: r.Intn(2) == 0, Flag2: r.Intn(2) == 0, Verify: r.Intn(5) != 0}
			}
			return Cmd{Op: "status", Txn: ti, Start: t.start, Prim: pk, TS2: caller, Cur: cur, Flag: r.Intn(2) == 0, Flag2: r.Intn(3) == 0}
		case x < 72:
			return Cmd{Op: "heartbeat", Txn: ti, Start: t.start, Prim: t.prim, TTL: []uint64{5, 2000, 9000}[r.Intn(3)]}
		case x < 78: // resolve
			t.ended = true
			cts := uint64(0)
			if r.Intn(2) == 0 {
				if t.commit == 0 {
					t.commit = g.ts()
				}
				cts = t.commit
			}
			if r.Intn(3) == 0 {
				// resolve-lock lite through the RPC handler: only the listed keys of the transaction are resolved
				return Cmd{Op: "rresolve", Txn: ti, Start: t.start, TS: cts, Keys: pickMine()}
			}
			return Cmd{Op: "resolve", Txn: ti, Start: t.start, TS: cts}
		case x < 81: // batch resolve
			c := Cmd{Op: "bresolve", Txn: -1}
			for _, u := range g.txns {
				if r.Intn(2) == 0 {
					u.ended = true
					cts := uint64(0)
					if r.Intn(2) == 0 {
						if u.commit == 0 {
							u.commit = g.ts()
						}
						cts = u.commit
					}
					c.Infos = append(c.Infos, [2]uint64{u.start, cts})
				}
			}
			if len(c.Infos) == 0 {
				continue
			}
			if r.Intn(2) == 0 {
				c.Op = "rbresolve" // through the RPC handler (ResolveLockRequest.TxnInfos)
			}
			return c
		case x < 83:
			return Cmd{Op: "scanlock", Txn: -1, TS: g.ts(), Keys: bounds(r)}
		case x < 84:
			// the same through the RPC handler: range and limit travel in the request
			return Cmd{Op: "rscanlock", Txn: -1, TS: g.ts(), Keys: bounds(r), Limit: r.Intn(4)}
		case x < 87: // GC
			sp := g.ts()
			if r.Intn(2) == 0 && len(g.txns) > 0 {
				sp = g.txns[r.Intn(len(g.txns))].start + uint64(r.Intn(3)) - 1
			}
			for _, u := range g.txns {
				if u.start <= sp {
					u.gcd = true
					u.ended = true
				}
			}
			return Cmd{Op: "gc", Txn: -1, TS: sp}
		case x < 92:
			rts := g.ts()
			if r.Intn(3) == 0 {
				rts = t.start + uint64(r.Intn(3)) - 1
			}
			if r.Intn(12) == 0 {
				rts = math.MaxUint64
			}
			return Cmd{Op: "get", Txn: -1, Keys: []string{keys[r.Intn(len(keys))]}, TS: rts}
		case x < 95:
			return Cmd{Op: "bget", Txn: -1, Keys: g.subset(1, 4), TS: g.ts()}
		default:
			return Cmd{Op: "scan", Txn: -1, Keys: bounds(r), TS: g.ts(), Limit: 1 + r.Intn(5), Flag: r.Intn(2) == 0}
		}
	}
}

func bounds(r *rand.Rand) []string {
	b := []string{"", "a", "b", "c", "d", "e"}
	lo, hi := b[r.Intn(len(b))], b[r.Intn(len(b))]
	if lo != "" && hi != "" && hi < lo {
		lo, hi = hi, lo
	}
	return []string{lo, hi}
}

// Generate implements simkit.Engine: a stream of fresh commands, then delivered with
// reordering (each command is delayed by a random number of slots) and duplication.
func (Engine) Generate(cfg simkit.RunConfig) (any, bool) {
	if cfg.Mode == "enum" {
		return enumScenario(cfg)
	}
	r := simkit.Rand(cfg.Seed, "gen")
	g := &gen{r: r, phys: 1000, gcHeavy: simkit.Rand(cfg.Seed, "gc-heavy").Intn(6) == 0}
	n := 4 + r.Intn(24)
	if cfg.Mode == "short" {
		n = 2 + r.Intn(5)
	}
	type slot struct {
		at  float64
		cmd Cmd
	}
	var slots []slot
	if g.gcHeavy {
		// a history for the collector: two or three finished transactions on one key, one after the other - a put, a
		// delete, a Lock record (an Op_Lock prewrite, or a pessimistic lock committed without prewrite), a rollback
		// marker - then a GC at a safe point between or above them and a read at / above it. Delivered in order, in
		// front of the random part (which goes on with the same keys).
		k := keys[r.Intn(len(keys))]
		var cts []uint64
		at := -100.0
		add := func(c Cmd) { slots = append(slots, slot{at, c}); at++ }
		for j, nt := 0, 2+r.Intn(2); j < nt; j++ {
			t := &vtxn{start: g.ts(), prim: k, mine: []string{k}, ended: true}
			g.txns = append(g.txns, t)
			ti := len(g.txns) - 1
			kind := []string{"put", "put", "del", "lock", "plock", "rollback"}[r.Intn(6)]
			if j == 0 {
				kind = "put"
			}
			switch kind {
			case "plock":
				t.pess = true
				t.fts = g.ts()
				add(Cmd{Op: "plock", Txn: ti, Start: t.start, Prim: k, TTL: 3000, TS: t.fts, Keys: []string{k}, MinC: t.fts + 1, NotEx: []bool{false}})
			case "rollback":
				add(Cmd{Op: "prewrite", Txn: ti, Start: t.start, Prim: k, TTL: 3000, Keys: []string{k}, Ops: []string{"put"}, Vals: []string{g.val()}, Acts: []int{0}, MinC: t.start + 1})
				add(Cmd{Op: "rollback", Txn: ti, Start: t.start, Keys: []string{k}})
				continue
			default:
				add(Cmd{Op: "prewrite", Txn: ti, Start: t.start, Prim: k, TTL: 3000, Keys: []string{k}, Ops: []string{kind}, Vals: []string{g.val()}, Acts: []int{0}, MinC: t.start + 1})
			}
			t.commit = g.ts()
			cts = append(cts, t.commit)
			add(Cmd{Op: "commit", Txn: ti, Start: t.start, Keys: []string{k}, TS: t.commit})
		}
		sp := g.ts()
		if len(cts) > 0 && r.Intn(2) == 0 {
			sp = cts[r.Intn(len(cts))] + uint64(r.Intn(3)) - 1
		}
		for _, u := range g.txns {
			if u.start <= sp {
				u.gcd = true
			}
		}
		add(Cmd{Op: "gc", Txn: -1, TS: sp})
		rts := g.ts()
		if rts < sp {
			rts = sp
		}
		add(Cmd{Op: "get", Txn: -1, Keys: []string{k}, TS: rts})
	}
	for i := 0; i < n; i++ {
		c := g.next()
		at := float64(i)
		if r.Intn(4) == 0 {
			at += float64(r.Intn(12)) // delivered late
		}
		slots = append(slots, slot{at, c})
		if r.Intn(7) == 0 {
			slots = append(slots, slot{at + 0.5 + float64(r.Intn(8)), c}) // duplicate
		}
	}
	sort.SliceStable(slots, func(i, j int) bool { return slots[i].at < slots[j].at })
	sc := &Scenario{}
	for _, s := range slots {
		sc.Cmds = append(sc.Cmds, s.cmd)
	}
	// input constraints of the property: pessimistic lock requests do not arrive after the
	// transaction was ended on the key, prewrites do not arrive after GC passed the start ts.
	sc.Cmds = enforceConstraints(sc.Cmds)
	return sc, true
}

// ---- mode enum: every command sequence up to a small length over a fixed alphabet -------------

func ets(n uint64) uint64 { return n << 18 }

// enumAlphabet: two transactions on the keys a (primary of both) and b - T0 optimistic (start 10,
// commit 30), T1 pessimistic (start 20, for-update 22, commit 40) - plus readers, GC and resolvers.
func enumAlphabet() []Cmd {
	s0, c0 := ets(10), ets(30)
	s1, f1, c1 := ets(20), ets(22), ets(40)
	pw0 := func(key, op string) Cmd {
		return Cmd{Op: "prewrite", Txn: 0, Start: s0, Prim: "a", TTL: 3000, Keys: []string{key}, Ops: []string{op}, Vals: []string{"v"}, Acts: []int{0}, MinC: s0 + 1}
	}
	pw1 := func(key string, act int) Cmd {
		return Cmd{Op: "prewrite", Txn: 1, Start: s1, Prim: "a", TTL: 3000, TS: f1, Keys: []string{key}, Ops: []string{"put"}, Vals: []string{"v"}, Acts: []int{act}, MinC: f1 + 1}
	}
	pl1 := func(key string, ret, chk, notEx bool) Cmd {
		return Cmd{Op: "plock", Txn: 1, Start: s1, Prim: "a", TTL: 3000, TS: f1, Keys: []string{key}, Flag: ret, Flag2: chk, MinC: f1 + 1, NotEx: []bool{notEx}}
	}
	return []Cmd{
		pw0("a", "put"), pw0("a", "del"), pw0("a", "insert"), pw0("a", "lock"), pw0("a", "check"), pw0("b", "put"),
		{Op: "commit", Txn: 0, Start: s0, Keys: []string{"a"}, TS: c0},
		{Op: "commit", Txn: 0, Start: s0, Keys: []string{"b"}, TS: c0},
		{Op: "rollback", Txn: 0, Start: s0, Keys: []string{"a"}},
		{Op: "rollback", Txn: 0, Start: s0, Keys: []string{"b"}},
		{Op: "cleanup", Txn: 0, Start: s0, Keys: []string{"a"}, TS2: 0},
		{Op: "cleanup", Txn: 0, Start: s0, Keys: []string{"a"}, TS2: ets(5000)},
		{Op: "status", Txn: 0, Start: s0, Prim: "a", TS2: ets(50), Cur: ets(50), Flag: true},
		{Op: "status", Txn: 0, Start: s0, Prim: "a", TS2: ets(50), Cur: ets(50), Flag: false},
		{Op: "status", Txn: 0, Start: s0, Prim: "a", TS2: ets(100000), Cur: ets(100000), Flag: true},
		{Op: "resolve", Txn: 0, Start: s0, TS: 0},
		{Op: "resolve", Txn: 0, Start: s0, TS: c0},
		{Op: "heartbeat", Txn: 0, Start: s0, Prim: "a", TTL: 9000},
		pl1("a", false, false, false), pl1("b", false, false, false), pl1("a", true, true, false), pl1("b", false, false, true),
		pw1("a", 1), pw1("a", 0), pw1("b", 1),
		{Op: "prollback", Txn: 1, Start: s1, Keys: []string{"a"}, TS: f1},
		{Op: "commit", Txn: 1, Start: s1, Keys: []string{"a"}, TS: c1},
		{Op: "commit", Txn: 1, Start: s1, Keys: []string{"b"}, TS: c1},
		{Op: "rollback", Txn: 1, Start: s1, Keys: []string{"a"}},
		{Op: "cleanup", Txn: 1, Start: s1, Keys: []string{"a"}, TS2: 0},
		{Op: "status", Txn: 1, Start: s1, Prim: "a", TS2: ets(50), Cur: ets(50), Flag: true, Flag2: true},
		{Op: "rstatus", Txn: 1, Start: s1, Prim: "b", TS2: ets(100000), Cur: ets(100000), Flag: true, Flag2: true, Verify: true},
		{Op: "rstatus", Txn: 0, Start: s0, Prim: "b", TS2: ets(100000), Cur: ets(100000), Flag: true, Verify: true},
		{Op: "rresolve", Txn: 0, Start: s0, TS: c0, Keys: []string{"b"}},
		{Op: "resolve", Txn: 1, Start: s1, TS: 0},
		{Op: "resolve", Txn: 1, Start: s1, TS: c1},
		{Op: "bresolve", Txn: -1, Infos: [][2]uint64{{s0, 0}, {s1, c1}}},
		{Op: "get", Txn: -1, Keys: []string{"a"}, TS: ets(15)},
		{Op: "get", Txn: -1, Keys: []string{"a"}, TS: ets(35)},
		{Op: "get", Txn: -1, Keys: []string{"a"}, TS: math.MaxUint64},
		{Op: "get", Txn: -1, Keys: []string{"b"}, TS: ets(45)},
		{Op: "scan", Txn: -1, Keys: []string{"", ""}, TS: ets(45), Limit: 5},
		{Op: "scanlock", Txn: -1, TS: math.MaxUint64, Keys: []string{"", ""}},
		{Op: "gc", Txn: -1, TS: ets(25)},
	}
}

// enumDepth is the longest enumerated sequence of a tier.
func enumDepth(tier string) int {
	if tier == "thorough" {
		return 4
	}
	return 3
}

func enumScenario(cfg simkit.RunConfig) (any, bool) {
	al := enumAlphabet()
	n := uint64(len(al))
	idx := uint64(cfg.Index)
	for l := 1; l <= enumDepth(cfg.Tier); l++ {
		cnt := uint64(1)
		for i := 0; i < l; i++ {
			cnt *= n
		}
		if idx >= cnt {
			idx -= cnt
			continue
		}
		sc := &Scenario{}
		for i := 0; i < l; i++ {
			c := al[idx%n]
			idx /= n
			if len(c.Vals) > 0 {
				c.Vals = []string{fmt.Sprintf("v%d", i)} // every written value is unique
			}
			sc.Cmds = append(sc.Cmds, c)
		}
		sc.Cmds = enforceConstraints(sc.Cmds)
		return sc, true
	}
	return nil, false
}

func enforceConstraints(cmds []Cmd) []Cmd {
	ended := map[uint64]bool{}
	var gcMax uint64
	var out []Cmd
	for _, c := range cmds {
		switch c.Op {
		case "plock":
			if ended[c.Start] {
				continue
			}
		case "prewrite":
			if c.Start <= gcMax {
				continue
			}
		case "commit", "rollback", "cleanup", "status", "rstatus", "resolve", "rresolve":
			ended[c.Start] = true
		case "bresolve", "rbresolve":
			for _, i := range c.Infos {
				ended[i[0]] = true
			}
		case "gc":
			if c.TS > gcMax {
				gcMax = c.TS
			}
			// a transaction below the safe point is over
		}
		if c.Op == "gc" {
			for s := range ended {
				_ = s
			}
		}
		out = append(out, c)
	}
	// pessimistic lock requests of transactions below a GC safe point that was delivered earlier
	var res []Cmd
	gcMax = 0
	for _, c := range out {
		if c.Op == "gc" && c.TS > gcMax {
			gcMax = c.TS
		}
		if c.Op == "plock" && c.Start <= gcMax {
			continue
		}
		res = append(res, c)
	}
	return res
}

type answer struct {
	ok    bool
	class string   // error class when !ok
	also  []string // other acceptable classes
	data  string   // canonical rendering of the data part of the answer
}

func (a answer) String() string {
	if a.ok {
		return "ok " + a.data
	}
	return "err:" + a.class + " " + a.data
}

func mockClass(err error) string {
	if err == nil {
		return ""
	}
	switch e := errors.Cause(err).(type) {
	case *mocktikv.ErrLocked:
		return "locked"
	case *mocktikv.ErrDeadlock:
		return "locked"
	case *mocktikv.ErrConflict:
		return "conflict"
	case *mocktikv.ErrKeyAlreadyExist:
		return "exists"
	case mocktikv.ErrRetryable:
		return "txn-lock-not-found"
	case mocktikv.ErrAbort:
		return "abort"
	case mocktikv.ErrAlreadyCommitted:
		return "already-committed"
	case *mocktikv.ErrAlreadyRollbacked:
		return "self-rolled-back"
	case *mocktikv.ErrCommitTSExpired:
		return "commit-ts-expired"
	case *mocktikv.ErrTxnNotFound:
		return "txn-not-found"
	case *mocktikv.ErrAssertionFailed:
		return "assertion"
	default:
		_ = e
		return "other"
	}
}

func opOf(s string) kvrpcpb.Op {
	switch s {
	case "put":
		return kvrpcpb.Op_Put
	case "del":
		return kvrpcpb.Op_Del
	case "lock":
		return kvrpcpb.Op_Lock
	case "insert":
		return kvrpcpb.Op_Insert
	case "check":
		return kvrpcpb.Op_CheckNotExists
	}
	return kvrpcpb.Op_Put
}

func bs(ss []string) [][]byte {
	var out [][]byte
	for _, s := range ss {
		out = append(out, []byte(s))
	}
	return out
}

func optKey(s string) []byte {
	if s == "" {
		return nil
	}
	return []byte(s)
}

// applyMock applies c to the repository's mock store.
func applyMock(m *mocktikv.MVCCLevelDB, rpc *rpcSide, c Cmd) answer {
	switch c.Op {
	case "rbresolve":
		req := &kvrpcpb.ResolveLockRequest{}
		for _, i := range c.Infos {
			req.TxnInfos = append(req.TxnInfos, &kvrpcpb.TxnInfo{Txn: i[0], Status: i[1]})
		}
		resp, err := rpc.send(tikvrpc.CmdResolveLock, req)
		if err != nil {
			return answer{class: "other", data: err.Error()}
		}
		r := resp.Resp.(*kvrpcpb.ResolveLockResponse)
		if r.RegionError != nil || r.Error != nil {
			return answer{class: "other", data: fmt.Sprint(r.RegionError, r.Error)}
		}
		return answer{ok: true}
	case "rscanlock":
		req := &kvrpcpb.ScanLockRequest{MaxVersion: c.TS, StartKey: optKey(c.Keys[0]), EndKey: optKey(c.Keys[1]), Limit: uint32(c.Limit)}
		resp, err := rpc.send(tikvrpc.CmdScanLock, req)
		if err != nil {
			return answer{class: "other", data: err.Error()}
		}
		r := resp.Resp.(*kvrpcpb.ScanLockResponse)
		if r.RegionError != nil || r.Error != nil {
			return answer{class: "other", data: fmt.Sprint(r.RegionError, r.Error)}
		}
		d := ""
		for _, l := range r.Locks {
			d += fmt.Sprintf("%q:%d:%q ", l.Key, l.LockVersion, l.PrimaryLock)
		}
		return answer{ok: true, data: d}
	case "prewrite":
		req := &kvrpcpb.PrewriteRequest{StartVersion: c.Start, PrimaryLock: []byte(c.Prim), LockTtl: c.TTL, ForUpdateTs: c.TS, MinCommitTs: c.MinC, TxnSize: uint64(len(c.Keys)), Context: &kvrpcpb.Context{}}
		for i, k := range c.Keys {
			mu := &kvrpcpb.Mutation{Op: opOf(c.Ops[i]), Key: []byte(k)}
			if c.Ops[i] == "put" || c.Ops[i] == "insert" {
				mu.Value = []byte(c.Vals[i])
			}
			req.Mutations = append(req.Mutations, mu)
			if c.TS != 0 {
				req.PessimisticActions = append(req.PessimisticActions, kvrpcpb.PrewriteRequest_PessimisticAction(c.Acts[i]))
			}
		}
		errs := m.Prewrite(req)
		var classes []string
		for _, e := range errs {
			if e != nil {
				classes = append(classes, mockClass(e))
			}
		}
		if len(classes) == 0 {
			return answer{ok: true}
		}
		sort.Strings(classes)
		return answer{class: classes[0], data: strings.Join(classes, ",")}
	case "plock":
		req := &kvrpcpb.PessimisticLockRequest{StartVersion: c.Start, PrimaryLock: []byte(c.Prim), LockTtl: c.TTL, ForUpdateTs: c.TS, ReturnValues: c.Flag, CheckExistence: c.Flag2, MinCommitTs: c.MinC, WaitTimeout: mocktikv.LockNoWait}
		for i, k := range c.Keys {
			mu := &kvrpcpb.Mutation{Op: kvrpcpb.Op_PessimisticLock, Key: []byte(k)}
			if c.NotEx[i] {
				mu.Assertion = kvrpcpb.Assertion_NotExist
			}
			req.Mutations = append(req.Mutations, mu)
		}
		resp := m.PessimisticLock(req)
		if len(resp.Errors) > 0 {
			var classes []string
			for _, ke := range resp.Errors {
				classes = append(classes, keyErrClass(ke))
			}
			sort.Strings(classes)
			return answer{class: classes[0], data: strings.Join(classes, ",")}
		}
		d := ""
		if c.Flag {
			for i, v := range resp.Values {
				d += fmt.Sprintf("%q/%v ", v, !resp.NotFounds[i])
			}
		} else if c.Flag2 {
			for _, nf := range resp.NotFounds {
				d += fmt.Sprintf("%v ", !nf)
			}
		}
		return answer{ok: true, data: d}
	case "prollback":
		errs := m.PessimisticRollback(nil, nil, bs(c.Keys), c.Start, c.TS)
		for _, e := range errs {
			if e != nil {
				return answer{class: mockClass(e)}
			}
		}
		return answer{ok: true}
	case "commit":
		err := m.Commit(bs(c.Keys), c.Start, c.TS)
		return answer{ok: err == nil, class: mockClass(err)}
	case "rollback":
		err := m.Rollback(bs(c.Keys), c.Start)
		a := answer{ok: err == nil, class: mockClass(err)}
		if e, ok := errors.Cause(err).(mocktikv.ErrAlreadyCommitted); ok {
			a.data = fmt.Sprint(uint64(e))
		}
		return a
	case "cleanup":
		err := m.Cleanup([]byte(c.Keys[0]), c.Start, c.TS2)
		a := answer{ok: err == nil, class: mockClass(err)}
		if e, ok := errors.Cause(err).(mocktikv.ErrAlreadyCommitted); ok {
			a.data = fmt.Sprint(uint64(e))
		}
		return a
	case "rresolve":
		req := &kvrpcpb.ResolveLockRequest{StartVersion: c.Start, CommitVersion: c.TS, Keys: bs(c.Keys)}
		resp, err := rpc.send(tikvrpc.CmdResolveLock, req)
		if err != nil {
			return answer{class: "other", data: err.Error()}
		}
		r := resp.Resp.(*kvrpcpb.ResolveLockResponse)
		if r.RegionError != nil {
			return answer{class: "other", data: fmt.Sprint(r.RegionError)}
		}
		if r.Error != nil {
			return answer{class: "other", data: r.Error.String()}
		}
		return answer{ok: true}
	case "rstatus":
		req := &kvrpcpb.CheckTxnStatusRequest{PrimaryKey: []byte(c.Prim), LockTs: c.Start, CallerStartTs: c.TS2, CurrentTs: c.Cur,
			RollbackIfNotExist: c.Flag, ResolvingPessimisticLock: c.Flag2, VerifyIsPrimary: c.Verify}
		resp, err := rpc.send(tikvrpc.CmdCheckTxnStatus, req)
		if err != nil {
			return answer{class: "other", data: err.Error()}
		}
		r := resp.Resp.(*kvrpcpb.CheckTxnStatusResponse)
		if r.RegionError != nil {
			return answer{class: "other", data: fmt.Sprint(r.RegionError)}
		}
		if ke := r.Error; ke != nil {
			switch {
			case ke.PrimaryMismatch != nil:
				return answer{class: "primary-mismatch", data: fmt.Sprintf("primary=%q", ke.PrimaryMismatch.GetLockInfo().GetPrimaryLock())}
			case ke.TxnNotFound != nil:
				return answer{class: "txn-not-found"}
			case ke.Locked != nil:
				return answer{class: "locked"}
			}
			return answer{class: "other", data: ke.String()}
		}
		return answer{ok: true, data: fmt.Sprintf("ttl=%d commit=%d action=%v", r.LockTtl, r.CommitVersion, r.Action)}
	case "status":
		ttl, commit, action, err := m.CheckTxnStatus([]byte(c.Prim), c.Start, c.TS2, c.Cur, c.Flag, c.Flag2)
		if err != nil {
			return answer{class: mockClass(err)}
		}
		return answer{ok: true, data: fmt.Sprintf("ttl=%d commit=%d action=%v", ttl, commit, action)}
	case "heartbeat":
		ttl, err := m.TxnHeartBeat([]byte(c.Prim), c.Start, c.TTL)
		if err != nil {
			return answer{class: "other"}
		}
		return answer{ok: true, data: fmt.Sprint(ttl)}
	case "resolve":
		err := m.ResolveLock(nil, nil, c.Start, c.TS)
		return answer{ok: err == nil, class: mockClass(err)}
	case "bresolve":
		infos := map[uint64]uint64{}
		for _, i := range c.Infos {
			infos[i[0]] = i[1]
		}
		err := m.BatchResolveLock(nil, nil, infos)
		return answer{ok: err == nil, class: mockClass(err)}
	case "scanlock":
		locks, err := m.ScanLock(optKey(c.Keys[0]), optKey(c.Keys[1]), c.TS)
		if err != nil {
			return answer{class: "other"}
		}
		d := ""
		for _, l := range locks {
			d += fmt.Sprintf("%q:%d:%q ", l.Key, l.LockVersion, l.PrimaryLock)
		}
		return answer{ok: true, data: d}
	case "gc":
		err := m.GC(nil, nil, c.TS)
		if err != nil {
			return answer{class: "other"}
		}
		return answer{ok: true}
	case "get":
		v, err := m.Get([]byte(c.Keys[0]), c.TS, kvrpcpb.IsolationLevel_SI, nil)
		if err != nil {
			return answer{class: mockClass(err), data: lockedData(err)}
		}
		return answer{ok: true, data: fmt.Sprintf("%q", v)}
	case "bget":
		ps := m.BatchGet(bs(c.Keys), c.TS, kvrpcpb.IsolationLevel_SI, nil)
		return answer{ok: true, data: mockPairs(ps)}
	case "scan":
		var ps []mocktikv.Pair
		if c.Flag {
			ps = m.ReverseScan(optKey(c.Keys[0]), optKey(c.Keys[1]), c.Limit, c.TS, kvrpcpb.IsolationLevel_SI, nil)
		} else {
			ps = m.Scan(optKey(c.Keys[0]), optKey(c.Keys[1]), c.Limit, c.TS, kvrpcpb.IsolationLevel_SI, nil)
		}
		return answer{ok: true, data: mockPairs(ps)}
	}
	panic("unknown op " + c.Op)
}

func keyErrClass(ke *kvrpcpb.KeyError) string {
	switch {
	case ke.Locked != nil:
		return "locked"
	case ke.Deadlock != nil:
		return "locked"
	case ke.Conflict != nil:
		return "conflict"
	case ke.AlreadyExist != nil:
		return "exists"
	case strings.Contains(ke.Abort, "already rolled back") || strings.Contains(ke.Abort, "rolled back"):
		return "self-rolled-back"
	case ke.Abort != "":
		return "abort"
	case ke.Retryable != "":
		return "txn-lock-not-found"
	}
	return "other"
}

func lockedData(err error) string {
	if e, ok := errors.Cause(err).(*mocktikv.ErrLocked); ok {
		return fmt.Sprintf("lock{ts=%d primary=%q ttl=%d type=%v}", e.StartTS, e.Primary, e.TTL, e.LockType)
	}
	return ""
}

func mockPairs(ps []mocktikv.Pair) string {
	d := ""
	for _, p := range ps {
		if p.Err != nil {
			d += fmt.Sprintf("%q!%s%s ", p.Key, mockClass(p.Err), lockedData(p.Err))
		} else {
			d += fmt.Sprintf("%q=%q ", p.Key, p.Value)
		}
	}
	return d
}

func refLockedData(e *refkv.Err) string {
	if e != nil && e.Class == "locked" && e.Lock != nil {
		return fmt.Sprintf("lock{ts=%d primary=%q ttl=%d type=%v}", e.Lock.StartTS, e.Lock.Primary, e.Lock.TTL, e.Lock.Op)
	}
	return ""
}

func refPairs(ps []refkv.Pair) string {
	d := ""
	for _, p := range ps {
		if p.Err != nil {
			d += fmt.Sprintf("%q!%s%s ", p.Key, p.Err.Class, refLockedData(p.Err))
		} else {
			d += fmt.Sprintf("%q=%q ", p.Key, p.Value)
		}
	}
	return d
}

func errAnswer(e *refkv.Err) answer {
	if e == nil {
		return answer{ok: true}
	}
	return answer{class: e.Class, also: e.Also}
}

// applyRef applies c to the reference model.
func applyRef(s *refkv.Store, c Cmd) answer {
	switch c.Op {
	case "prewrite":
		var muts []*kvrpcpb.Mutation
		o := refkv.PrewriteOpts{StartTS: c.Start, Primary: []byte(c.Prim), TTL: c.TTL, TxnSize: uint64(len(c.Keys)), ForUpdateTS: c.TS, MinCommitTS: c.MinC, NoExistenceCheckForPessimistic: true}
		for i, k := range c.Keys {
			mu := &kvrpcpb.Mutation{Op: opOf(c.Ops[i]), Key: []byte(k)}
			if c.Ops[i] == "put" || c.Ops[i] == "insert" {
				mu.Value = []byte(c.Vals[i])
			}
			muts = append(muts, mu)
			if c.TS != 0 {
				o.Actions = append(o.Actions, kvrpcpb.PrewriteRequest_PessimisticAction(c.Acts[i]))
			}
		}
		res := s.Prewrite(muts, o)
		if len(res.Errs) == 0 {
			return answer{ok: true}
		}
		var classes, also []string
		for _, k := range simkit.SortedKeys(res.Errs) {
			classes = append(classes, res.Errs[k].Class)
			also = append(also, res.Errs[k].Also...)
		}
		sort.Strings(classes)
		return answer{class: classes[0], also: append(also, classes...), data: strings.Join(classes, ",")}
	case "plock":
		var muts []*kvrpcpb.Mutation
		for i, k := range c.Keys {
			mu := &kvrpcpb.Mutation{Op: kvrpcpb.Op_PessimisticLock, Key: []byte(k)}
			if c.NotEx[i] {
				mu.Assertion = kvrpcpb.Assertion_NotExist
			}
			muts = append(muts, mu)
		}
		rs, errs := s.PessimisticLock(muts, refkv.PessimisticLockOpts{StartTS: c.Start, ForUpdateTS: c.TS, Primary: []byte(c.Prim), TTL: c.TTL, MinCommitTS: c.MinC, ReturnValues: c.Flag, CheckExistence: c.Flag2})
		if len(errs) > 0 {
			var classes, also []string
			for _, k := range simkit.SortedKeys(errs) {
				classes = append(classes, errs[k].Class)
				also = append(also, errs[k].Also...)
			}
			sort.Strings(classes)
			return answer{class: classes[0], also: append(also, classes...), data: strings.Join(classes, ",")}
		}
		d := ""
		if c.Flag {
			for _, r := range rs {
				d += fmt.Sprintf("%q/%v ", r.Value, r.Exists)
			}
		} else if c.Flag2 {
			for _, r := range rs {
				d += fmt.Sprintf("%v ", r.Exists)
			}
		}
		return answer{ok: true, data: d}
	case "prollback":
		s.PessimisticRollback(nil, nil, bs(c.Keys), c.Start, c.TS)
		return answer{ok: true}
	case "commit":
		return errAnswer(s.Commit(bs(c.Keys), c.Start, c.TS))
	case "rollback":
		e := s.Rollback(bs(c.Keys), c.Start)
		a := errAnswer(e)
		if e != nil && e.Class == "already-committed" {
			a.data = fmt.Sprint(e.CommitTS)
		}
		return a
	case "cleanup":
		e := s.Cleanup([]byte(c.Keys[0]), c.Start, c.TS2)
		a := errAnswer(e)
		if e != nil && e.Class == "already-committed" {
			a.data = fmt.Sprint(e.CommitTS)
		}
		return a
	case "rstatus":
		st, e := s.CheckTxnStatusV([]byte(c.Prim), c.Start, c.TS2, c.Cur, c.Flag, c.Flag2, false, c.Verify)
		if e != nil {
			a := errAnswer(e)
			if e.Class == "primary-mismatch" {
				a.data = fmt.Sprintf("primary=%q", e.Lock.Primary)
			}
			return a
		}
		return answer{ok: true, data: fmt.Sprintf("ttl=%d commit=%d action=%v", st.TTL, st.CommitTS, st.Action)}
	case "status":
		st, e := s.CheckTxnStatus([]byte(c.Prim), c.Start, c.TS2, c.Cur, c.Flag, c.Flag2, false)
		if e != nil {
			return errAnswer(e)
		}
		return answer{ok: true, data: fmt.Sprintf("ttl=%d commit=%d action=%v", st.TTL, st.CommitTS, st.Action)}
	case "heartbeat":
		ttl, e := s.TxnHeartBeat([]byte(c.Prim), c.Start, c.TTL)
		if e != nil {
			return answer{class: "other"}
		}
		return answer{ok: true, data: fmt.Sprint(ttl)}
	case "rresolve":
		return errAnswer(s.ResolveLock(nil, nil, bs(c.Keys), c.Start, c.TS))
	case "resolve":
		return errAnswer(s.ResolveLock(nil, nil, nil, c.Start, c.TS))
	case "bresolve", "rbresolve":
		infos := map[uint64]uint64{}
		for _, i := range c.Infos {
			infos[i[0]] = i[1]
		}
		return errAnswer(s.BatchResolveLock(nil, nil, infos))
	case "scanlock", "rscanlock":
		d := ""
		for _, l := range s.ScanLock(optKey(c.Keys[0]), optKey(c.Keys[1]), c.TS, c.Limit) {
			d += fmt.Sprintf("%q:%d:%q ", l.Key, l.Lock.StartTS, l.Lock.Primary)
		}
		return answer{ok: true, data: d}
	case "gc":
		if e := s.GC(nil, nil, c.TS); e != nil {
			return answer{class: "other"}
		}
		return answer{ok: true}
	case "get":
		v, _, e := s.Get([]byte(c.Keys[0]), c.TS, refkv.ReadOpts{})
		if e != nil {
			return answer{class: e.Class, data: refLockedData(e)}
		}
		return answer{ok: true, data: fmt.Sprintf("%q", v)}
	case "bget":
		return answer{ok: true, data: refPairs(s.BatchGet(bs(c.Keys), c.TS, refkv.ReadOpts{}))}
	case "scan":
		if c.Flag {
			return answer{ok: true, data: refPairs(s.ReverseScan(optKey(c.Keys[0]), optKey(c.Keys[1]), c.Limit, c.TS, refkv.ReadOpts{}))}
		}
		return answer{ok: true, data: refPairs(s.Scan(optKey(c.Keys[0]), optKey(c.Keys[1]), c.Limit, c.TS, refkv.ReadOpts{}))}
	}
	panic("unknown op " + c.Op)
}

func sameAnswer(m, r answer) bool {
	if m.ok != r.ok {
		return false
	}
	if m.ok {
		return m.data == r.data
	}
	if m.class == r.class {
		return true
	}
	for _, a := range r.also {
		if a == m.class {
			return true
		}
	}
	return false
}

// mockState renders the full state of every key of the mock store.
func mockState(m *mocktikv.MVCCLevelDB) map[string]string {
	out := map[string]string{}
	locks := map[string]*kvrpcpb.LockInfo{}
	for _, l := range m.VerifDumpLocks() {
		locks[string(l.Key)] = l
	}
	for _, k := range keys {
		info := m.MvccGetByKey([]byte(k))
		var sb strings.Builder
		if l := locks[k]; l != nil {
			v := ""
			if info != nil && info.Lock != nil {
				v = string(info.Lock.ShortValue)
			}
			fts := l.LockForUpdateTs
			if l.LockType != kvrpcpb.Op_PessimisticLock {
				fts = 0 // not observable for a prewrite lock
			}
			fmt.Fprintf(&sb, "lock{ts=%d op=%v primary=%q val=%q ttl=%d fts=%d minc=%d} ", l.LockVersion, l.LockType, l.PrimaryLock, v, l.LockTtl, fts, l.MinCommitTs)
		}
		if info != nil {
			for i, w := range info.Writes {
				v := ""
				if i < len(info.Values) {
					v = string(info.Values[i].Value)
				}
				if w.Type != kvrpcpb.Op_Put {
					v = ""
				}
				fmt.Fprintf(&sb, "[%v start=%d commit=%d %q] ", w.Type, w.StartTs, w.CommitTs, v)
			}
		}
		out[k] = sb.String()
	}
	return out
}

func refState(s *refkv.Store) map[string]string {
	out := map[string]string{}
	for _, k := range keys {
		d := s.Dump([]byte(k))
		var sb strings.Builder
		if l := d.Lock; l != nil {
			fts := l.ForUpdateTS
			if l.Op != kvrpcpb.Op_PessimisticLock {
				fts = 0
			}
			fmt.Fprintf(&sb, "lock{ts=%d op=%v primary=%q val=%q ttl=%d fts=%d minc=%d} ", l.StartTS, l.Op, l.Primary, l.Value, l.TTL, fts, l.MinCommitTS)
		}
		for _, w := range d.Writes {
			v := string(w.Value)
			if w.Kind != kvrpcpb.Op_Put {
				v = ""
			}
			fmt.Fprintf(&sb, "[%v start=%d commit=%d %q] ", w.Kind, w.StartTS, w.CommitTS, v)
		}
		out[k] = sb.String()
	}
	return out
}

func fmtCmd(c Cmd) string {
	b, _ := json.Marshal(c)
	return string(b)
}

// classify derives a stable signature of a disagreement (used to match known findings).
func classify(c Cmd, ma, ra answer, key, ms, rs string) string {
	switch {
	case c.Op == "cleanup" && ma.ok && ra.ok && strings.Contains(rs, "Rollback") && !strings.Contains(ms, fmt.Sprintf("Rollback start=%d", c.Start)):
		return "cleanup-marker-not-persisted"
	case c.Op == "prewrite" && !ma.ok && ma.class == "conflict" && ra.ok && c.TS != 0:
		return "prewrite-own-pessimistic-lock-conflict-recheck"
	case (c.Op == "commit" || c.Op == "resolve" || c.Op == "bresolve") && strings.Contains(ms, "Del") && strings.Contains(rs, "Lock start"):
		return "commit-of-pessimistic-lock-writes-delete"
	case c.Op == "prewrite" && !ma.ok && ma.class == "locked" && ra.ok && (contains(c.Ops, "insert") || contains(c.Ops, "check")):
		return "retried-insert-blocked-by-own-lock"
	case c.Op == "plock" && !ma.ok && ma.class == "exists" && ra.ok:
		return "lock-record-treated-as-existing-value"
	case c.Op == "rbresolve":
		return "rpc-resolve-lock-ignores-txn-infos"
	case c.Op == "rscanlock":
		return "rpc-scan-lock-ignores-range-or-limit"
	case c.Op == "plock" && ma.ok && !ra.ok && strings.Contains(ra.data, "abort"):
		return "pessimistic-lock-over-own-prewrite-lock-accepted"
	case c.Op == "prewrite" && ma.ok && !ra.ok && contains(c.Ops, "check"):
		return "check-not-exists-skips-conflict-and-lock-checks"
	}
	return c.Op
}

func contains(ss []string, x string) bool {
	for _, s := range ss {
		if s == x {
			return true
		}
	}
	return false
}

// Execute implements simkit.Engine.
func (Engine) Execute(t *testing.T, cfg simkit.RunConfig, scenario any) *simkit.RunResult {
	sc := scenario.(*Scenario)
	res := &simkit.RunResult{Stats: map[string]int{}}
	store, err := mocktikv.NewMVCCLevelDB("")
	if err != nil {
		t.Fatal(err)
	}
	ref := refkv.New()
	rpc := newRPCSide(store)
	var log []string
	for i, c := range sc.Cmds {
		ma := applyMock(store, rpc, c)
		ra := applyRef(ref, c)
		res.Stats["cmd."+c.Op]++
		if !ma.ok {
			res.Stats["mock-err."+ma.class]++
		}
		log = append(log, fmt.Sprintf("#%d %s -> mock: %s | model: %s", i, fmtCmd(c), ma, ra))
		if !sameAnswer(ma, ra) {
			sig := classify(c, ma, ra, "", "", "")
			res.Violations = append(res.Violations, simkit.Violation{Property: "C12", Class: "answer-mismatch", Sig: sig,
				Detail: fmt.Sprintf("command #%d %s: the mock store answered %q, the reference model answers %q (acceptable also: %v)", i, fmtCmd(c), ma, ra, ra.also)})
			break
		}
		ms, rs := mockState(store), refState(ref)
		bad := false
		for _, k := range keys {
			if ms[k] != rs[k] {
				sig := classify(c, ma, ra, k, ms[k], rs[k])
				res.Violations = append(res.Violations, simkit.Violation{Property: "C12", Class: "state-mismatch", Sig: sig,
					Detail: fmt.Sprintf("after command #%d %s (both answered %q) key %q is\n   mock : %s\n   model: %s", i, fmtCmd(c), ma, k, ms[k], rs[k])})
				bad = true
				break
			}
		}
		if bad {
			break
		}
		// invariant independent of the model: a transaction is never both committed and rolled back on a key
		for _, k := range keys {
			if v := bothOutcomes(ms[k]); v != "" {
				res.Violations = append(res.Violations, simkit.Violation{Property: "C12", Class: "committed-and-rolled-back", Sig: "both",
					Detail: fmt.Sprintf("after command #%d %s key %q holds both a commit and a rollback record of one transaction: %s", i, fmtCmd(c), k, ms[k])})
				bad = true
			}
		}
		if bad {
			break
		}
	}
	_ = store.Close()
	simkit.Settle()
	h := sha1.Sum([]byte(strings.Join(log, "\n")))
	res.SchedHash = hex.EncodeToString(h[:8])
	res.Trace = log
	res.Events = len(sc.Cmds)
	res.Nontrivial = len(sc.Cmds) >= 3
	if len(res.Violations) > 0 {
		res.Log = log
	}
	n := len(log)
	if n > 6 {
		n = 6
	}
	res.Sample = map[string]any{"commands": len(sc.Cmds), "first": log[:n]}
	return res
}

func bothOutcomes(state string) string {
	// records are rendered as [Kind start=S commit=C "v"]
	starts := map[string]string{}
	for _, part := range strings.Split(state, "[") {
		f := strings.Fields(part)
		if len(f) < 3 || !strings.HasPrefix(f[1], "start=") {
			continue
		}
		kind := "commit"
		if f[0] == "Rollback" {
			kind = "rollback"
		}
		if prev, ok := starts[f[1]]; ok && prev != kind {
			return f[1]
		}
		starts[f[1]] = kind
	}
	return ""
}

// Shrink implements simkit.Engine: drop single commands.
func (Engine) Shrink(scenario any) []any {
	sc := scenario.(*Scenario)
	var out []any
	for i := range sc.Cmds {
		c := &Scenario{}
		c.Cmds = append(c.Cmds, sc.Cmds[:i]...)
		c.Cmds = append(c.Cmds, sc.Cmds[i+1:]...)
		if len(c.Cmds) > 0 {
			out = append(out, c)
		}
	}
	// shrink key lists
	for i, cmd := range sc.Cmds {
		if len(cmd.Keys) > 1 && (cmd.Op == "prewrite" || cmd.Op == "plock" || cmd.Op == "commit" || cmd.Op == "rollback") {
			for j := range cmd.Keys {
				c := &Scenario{Cmds: append([]Cmd(nil), sc.Cmds...)}
				nc := cmd
				nc.Keys = append(append([]string(nil), cmd.Keys[:j]...), cmd.Keys[j+1:]...)
				if len(cmd.Ops) == len(cmd.Keys) {
					nc.Ops = append(append([]string(nil), cmd.Ops[:j]...), cmd.Ops[j+1:]...)
					nc.Vals = append(append([]string(nil), cmd.Vals[:j]...), cmd.Vals[j+1:]...)
					nc.Acts = append(append([]int(nil), cmd.Acts[:j]...), cmd.Acts[j+1:]...)
				}
				if len(cmd.NotEx) == len(cmd.Keys) {
					nc.NotEx = append(append([]bool(nil), cmd.NotEx[:j]...), cmd.NotEx[j+1:]...)
				}
				c.Cmds[i] = nc
				out = append(out, c)
			}
		}
	}
	return out
}

var _ = bytes.Equal

// rpcSide drives the mock's RPC handlers (one store, one region covering everything).
type rpcSide struct {
	client *mocktikv.RPCClient
	ctx    kvrpcpb.Context
	addr   string
}

func newRPCSide(store *mocktikv.MVCCLevelDB) *rpcSide {
	cluster := mocktikv.NewCluster(store)
	storeID, peerID, regionID := mocktikv.BootstrapWithSingleStore(cluster)
	region, _ := cluster.GetRegion(regionID)
	return &rpcSide{
		client: mocktikv.NewRPCClient(cluster, store, nil),
		addr:   cluster.GetStore(storeID).Address,
		ctx:    kvrpcpb.Context{RegionId: regionID, RegionEpoch: region.RegionEpoch, Peer: &metapb.Peer{Id: peerID, StoreId: storeID}},
	}
}

func (r *rpcSide) send(cmd tikvrpc.CmdType, req interface{}) (*tikvrpc.Response, error) {
	return r.client.SendRequest(context.Background(), r.addr, tikvrpc.NewRequest(cmd, req, r.ctx), 0)
}
