package simkit

import (
	"encoding/json"
	"fmt"
	"os"
	"runtime"
	"runtime/debug"
	"strconv"
	"strings"
	"testing"
	"testing/synctest"
	"time"
)

// Violation is one property violation found in a run.
type Violation struct {
	Property string `json:"property"`
	Class    string `json:"class"`     // stable class name (used to match while minimising and replaying)
	Sig      string `json:"signature"` // stable signature (used to match known findings)
	Detail   string `json:"detail"`    // human readable witness
}

// RunResult is what one simulated run reports.
type RunResult struct {
	Violations []Violation    `json:"violations,omitempty"`
	Stats      map[string]int `json:"stats,omitempty"`
	Aborted    string         `json:"aborted,omitempty"`
	SchedHash  string         `json:"sched_hash"`
	Nontrivial bool           `json:"nontrivial"`
	SimTime    time.Duration  `json:"sim_ns"`
	Events     int            `json:"events"`
	Sample     any            `json:"sample,omitempty"`
	Log        []string       `json:"log,omitempty"`
	// Trace is a canonical event log used by the determinism self-test.
	Trace []string `json:"trace,omitempty"`
}

// RunConfig identifies one run.
type RunConfig struct {
	Property string
	Mode     string
	Tier     string
	Seed     uint64 // per-run seed
	BaseSeed uint64 // seed of the whole check (VERIF_SEED)
	Index    int    // global run index
}

// Engine is implemented by each simulation engine.
type Engine interface {
	Name() string
	// Generate produces the explicit scenario of run cfg.Index (JSON-serialisable).
	// ok=false means the enumeration is exhausted.
	Generate(cfg RunConfig) (scenario any, ok bool)
	// Decode parses a scenario from a replay file.
	Decode(raw json.RawMessage) (any, error)
	// Execute runs the scenario. It is called inside a fresh synctest bubble.
	Execute(t *testing.T, cfg RunConfig, scenario any) *RunResult
	// Shrink proposes simpler scenarios (may return nil).
	Shrink(scenario any) []any
}

// Preparer is an optional Engine extension: Prepare runs outside the bubble
// before the run (process-global state such as failpoints must be set there,
// because channels created inside a bubble cannot be used from another one),
// Cleanup after it.
type Preparer interface {
	Prepare(cfg RunConfig, scenario any)
	Cleanup(cfg RunConfig, scenario any)
}

// ReplayFile is the on-disk form of a violating (or sample) run.
type ReplayFile struct {
	Engine   string          `json:"engine"`
	Property string          `json:"property"`
	Mode     string          `json:"mode"`
	Tier     string          `json:"tier"`
	Seed     uint64          `json:"seed"`
	Index    int             `json:"index"`
	Scenario json.RawMessage `json:"scenario"`
	Expect   *Violation      `json:"expect,omitempty"`
	Log      []string        `json:"log,omitempty"`
}

// WorkerOut is the JSON a worker process writes.
type WorkerOut struct {
	Engine      string            `json:"engine"`
	Property    string            `json:"property"`
	Mode        string            `json:"mode"`
	Runs        int               `json:"runs"`
	Aborted     int               `json:"aborted"`
	AbortKinds  map[string]int    `json:"abort_kinds"`
	AbortedIdx  []int             `json:"aborted_idx,omitempty"`
	Nontrivial  []string          `json:"nontrivial_hashes"`
	AllHashes   int               `json:"all_hashes"`
	Stats       map[string]int    `json:"stats"`
	SimSeconds  float64           `json:"sim_seconds"`
	WallSeconds float64           `json:"wall_seconds"`
	Events      int               `json:"events"`
	Samples     []any             `json:"samples"`
	Violations  []WorkerViolation `json:"violations"`
	Exhausted   bool              `json:"exhausted"`
	Traces      map[string]string `json:"traces,omitempty"` // run index -> trace digest (self-test)
}

// WorkerViolation points at the replay file of a violation.
type WorkerViolation struct {
	Violation
	Replay string `json:"replay"`
	Index  int    `json:"index"`
}

func envInt(name string, def int) int {
	if v := os.Getenv(name); v != "" {
		if n, err := strconv.Atoi(v); err == nil {
			return n
		}
	}
	return def
}

func envU64(name string, def uint64) uint64 {
	if v := os.Getenv(name); v != "" {
		if n, err := strconv.ParseUint(v, 10, 64); err == nil {
			return n
		}
		if n, err := strconv.ParseInt(v, 10, 64); err == nil {
			return uint64(n)
		}
	}
	return def
}

// RunOne executes one scenario in a fresh bubble and returns its result. Panics
// on the bubble's root goroutine (including the end-of-bubble deadlock report)
// are converted into an aborted result.
func RunOne(t *testing.T, e Engine, cfg RunConfig, sc any) (res *RunResult) {
	stop := make(chan struct{})
	go watchdog(stop, cfg, 120*time.Second)
	defer close(stop)
	defer func() {
		if r := recover(); r != nil {
			msg := fmt.Sprint(r)
			if res == nil {
				res = &RunResult{}
			}
			if strings.Contains(msg, "deadlock: all goroutines in bubble are blocked") ||
				strings.Contains(msg, "main bubble goroutine has exited but blocked goroutines remain") {
				res.Aborted = "bubble-leak"
				res.Log = append(res.Log, msg)
				if os.Getenv("VERIF_DEBUG") != "" {
					buf := make([]byte, 1<<22)
					n := runtime.Stack(buf, true)
					fmt.Fprintf(os.Stderr, "bubble leak in run %d: %s\n%s\n", cfg.Index, msg, buf[:n])
				}
				return
			}
			panic(r)
		}
	}()
	TakeFatals()
	if p, ok := e.(Preparer); ok {
		p.Prepare(cfg, sc)
		defer p.Cleanup(cfg, sc)
	}
	// No garbage collection while a run executes (one before it, a memory limit as the safety net): a collection
	// cycle stops and re-queues goroutines at moments that depend on real time and on what earlier runs of the process
	// left on the heap, which is the one thing that made the same run take two different schedules in two processes.
	// Two collections, not one: the second also empties the victim caches of every sync.Pool, so that no pooled object of
	// the library outlives the bubble it was used in (the runtime refuses a WaitGroup or a timer that crosses bubbles, and a
	// real process has no bubbles to cross).
	// (Engines whose runs are tiny and touch no pooled objects of the library - pure model comparisons, single calls on
	// a fake clock - say so with LightRuns and get the pair of collections every 64th run: millions of runs, each paying
	// for two collections, took twice as long.)
	gcEvery := 1
	if l, ok := e.(interface{ LightRuns() bool }); ok && l.LightRuns() {
		gcEvery = 64
	}
	if runsSinceGC++; runsSinceGC >= gcEvery {
		runsSinceGC = 0
		runtime.GC()
		runtime.GC()
	}
	oldGC := debug.SetGCPercent(-1)
	oldLimit := debug.SetMemoryLimit(3 << 30)
	defer func() {
		debug.SetGCPercent(oldGC)
		debug.SetMemoryLimit(oldLimit)
	}()
	synctest.Test(t, func(t *testing.T) {
		res = e.Execute(t, cfg, sc)
	})
	return res
}

var runsSinceGC = 1 << 30 // the first run of a process always starts after a collection

func watchdog(stop chan struct{}, cfg RunConfig, d time.Duration) {
	select {
	case <-stop:
	case <-time.After(d):
		buf := make([]byte, 1<<22)
		n := runtime.Stack(buf, true)
		fmt.Fprintf(os.Stderr, "WATCHDOG: run %d (seed %d, %s/%s) exceeded %v of real time\n%s\n", cfg.Index, cfg.Seed, cfg.Property, cfg.Mode, d, buf[:n])
		os.Exit(3)
	}
}

// Main is the entry point of every engine's test binary.
func Main(t *testing.T, e Engine) {
	prop := os.Getenv("VERIF_PROP")
	mode := os.Getenv("VERIF_MODE")
	tier := os.Getenv("VERIF_TIER")
	if tier == "" {
		tier = "quick"
	}
	seed := envU64("VERIF_SEED", 1)
	worker := envInt("VERIF_WORKER", 0)
	workers := envInt("VERIF_WORKERS", 1)
	maxRuns := envInt("VERIF_RUNS", 10)
	seconds := envInt("VERIF_SECONDS", 0)
	outPath := os.Getenv("VERIF_OUT")
	replayDir := os.Getenv("VERIF_REPLAY_DIR")
	if replayDir == "" {
		replayDir = "replays"
	}
	wantTrace := os.Getenv("VERIF_TRACE") != ""

	QuietLogs()
	if p := os.Getenv("VERIF_REPLAY"); p != "" {
		replayMain(t, e, p)
		return
	}
	if p := os.Getenv("VERIF_MINIMIZE"); p != "" {
		minimizeMain(t, e, p)
		return
	}

	out := &WorkerOut{Engine: e.Name(), Property: prop, Mode: mode, Stats: map[string]int{}, AbortKinds: map[string]int{}}
	if wantTrace {
		out.Traces = map[string]string{}
	}
	seen := map[string]bool{}
	all := map[string]bool{}
	perClass := map[string]int{}
	start := time.Now()
	h := NewHasher(seed, "run")
	for k := 0; k < maxRuns; k++ {
		if seconds > 0 && time.Since(start) > time.Duration(seconds)*time.Second {
			break
		}
		idx := worker + k*workers
		cfg := RunConfig{Property: prop, Mode: mode, Tier: tier, Index: idx, Seed: h.U64(strconv.Itoa(idx)), BaseSeed: seed}
		sc, ok := e.Generate(cfg)
		if !ok {
			out.Exhausted = true
			break
		}
		FatalExit = func(msg string) {
			raw, _ := json.Marshal(sc)
			v := Violation{Property: prop, Class: "fatal-log", Sig: "fatal", Detail: "the library logged at Fatal level (a real process would have exited): " + msg}
			rf := ReplayFile{Engine: e.Name(), Property: prop, Mode: mode, Tier: tier, Seed: cfg.Seed, Index: idx, Scenario: raw, Expect: &v}
			_ = os.MkdirAll(replayDir, 0o755)
			path := fmt.Sprintf("%s/%s-%s-%d-%d-fatal.json", replayDir, prop, mode, seed, idx)
			b, _ := json.MarshalIndent(rf, "", " ")
			_ = os.WriteFile(path, b, 0o644)
			fmt.Fprintf(os.Stderr, "\nFATAL-LOG property=%s replay=%s detail=%s\n", prop, path, msg)
			os.Exit(4)
		}
		if outPath != "" {
			// the run in progress, so that the driver can replay it if a panic of the library kills this process
			raw, _ := json.Marshal(sc)
			rf := ReplayFile{Engine: e.Name(), Property: prop, Mode: mode, Tier: tier, Seed: cfg.Seed, Index: idx, Scenario: raw}
			b, _ := json.Marshal(rf)
			_ = os.WriteFile(outPath+".current", b, 0o644)
		}
		res := RunOne(t, e, cfg, sc)
		if os.Getenv("VERIF_DUMP") != "" {
			b, _ := json.Marshal(sc)
			fmt.Fprintf(os.Stderr, "RUN %d aborted=%q scenario=%s\n", idx, res.Aborted, b)
			for _, l := range res.Log {
				fmt.Fprintln(os.Stderr, "  | "+l)
			}
		}
		out.Runs++
		out.Events += res.Events
		out.SimSeconds += res.SimTime.Seconds()
		for k, v := range res.Stats {
			out.Stats[k] += v
		}
		if res.Aborted != "" {
			out.Aborted++
			out.AbortKinds[res.Aborted]++
			if len(out.AbortedIdx) < 20 {
				out.AbortedIdx = append(out.AbortedIdx, idx)
			}
		}
		all[res.SchedHash] = true
		if res.Nontrivial && !seen[res.SchedHash] {
			seen[res.SchedHash] = true
			out.Nontrivial = append(out.Nontrivial, res.SchedHash)
		}
		if wantTrace {
			out.Traces[strconv.Itoa(idx)] = strings.Join(res.Trace, "\n")
		}
		if len(out.Samples) < 2 && res.Sample != nil && res.Nontrivial {
			out.Samples = append(out.Samples, res.Sample)
		}
		for vi, v := range res.Violations {
			ck := v.Property + "/" + v.Class + "/" + v.Sig
			if len(out.Violations) >= 60 || perClass[ck] >= 2 {
				out.Stats["violations.not-listed"]++
				continue
			}
			perClass[ck]++
			raw, _ := json.Marshal(sc)
			rf := ReplayFile{Engine: e.Name(), Property: v.Property, Mode: mode, Tier: tier, Seed: cfg.Seed, Index: idx, Scenario: raw, Expect: &res.Violations[vi], Log: res.Log}
			_ = os.MkdirAll(replayDir, 0o755)
			path := fmt.Sprintf("%s/%s-%s-%d-%d-%d.json", replayDir, v.Property, mode, seed, idx, vi)
			b, _ := json.MarshalIndent(rf, "", " ")
			_ = os.WriteFile(path, b, 0o644)
			out.Violations = append(out.Violations, WorkerViolation{Violation: v, Replay: path, Index: idx})
		}
	}
	out.AllHashes = len(all)
	out.WallSeconds = time.Since(start).Seconds()
	if outPath != "" {
		b, _ := json.Marshal(out)
		if err := os.WriteFile(outPath, b, 0o644); err != nil {
			t.Fatalf("write %s: %v", outPath, err)
		}
	} else {
		b, _ := json.MarshalIndent(out, "", " ")
		fmt.Println(string(b))
	}
}

func loadReplay(t *testing.T, e Engine, path string) (*ReplayFile, any) {
	b, err := os.ReadFile(path)
	if err != nil {
		t.Fatalf("read replay: %v", err)
	}
	var rf ReplayFile
	if err := json.Unmarshal(b, &rf); err != nil {
		t.Fatalf("parse replay: %v", err)
	}
	sc, err := e.Decode(rf.Scenario)
	if err != nil {
		t.Fatalf("decode scenario: %v", err)
	}
	return &rf, sc
}

func sameViolation(res *RunResult, want *Violation) *Violation {
	if want == nil {
		if len(res.Violations) > 0 {
			return &res.Violations[0]
		}
		return nil
	}
	for i := range res.Violations {
		if res.Violations[i].Property == want.Property && res.Violations[i].Class == want.Class {
			return &res.Violations[i]
		}
	}
	return nil
}

// replayMain re-executes a replay file and prints REPLAY-OK <class> when the
// recorded violation class reappears, REPLAY-CLEAN otherwise.
func replayMain(t *testing.T, e Engine, path string) {
	rf, sc := loadReplay(t, e, path)
	cfg := RunConfig{Property: rf.Property, Mode: rf.Mode, Tier: rf.Tier, Seed: rf.Seed, Index: rf.Index}
	FatalExit = func(msg string) {
		fmt.Printf("REPLAY-OK property=%s class=fatal-log sig=fatal\n%s\n", rf.Property, msg)
		os.Exit(0)
	}
	res := RunOne(t, e, cfg, sc)
	if v := sameViolation(res, rf.Expect); v != nil {
		fmt.Printf("REPLAY-OK property=%s class=%s sig=%s\n%s\n", v.Property, v.Class, v.Sig, v.Detail)
		if os.Getenv("VERIF_VERBOSE") != "" {
			for _, l := range res.Log {
				fmt.Println("  | " + l)
			}
		}
		return
	}
	fmt.Printf("REPLAY-CLEAN aborted=%q violations=%d\n", res.Aborted, len(res.Violations))
	for _, v := range res.Violations {
		fmt.Printf("  other: %s %s %s\n", v.Property, v.Class, v.Detail)
	}
	if os.Getenv("VERIF_VERBOSE") != "" {
		for _, l := range res.Log {
			fmt.Println("  | " + l)
		}
	}
}

// minimizeMain greedily shrinks a replay while the same violation class persists.
func minimizeMain(t *testing.T, e Engine, path string) {
	rf, sc := loadReplay(t, e, path)
	cfg := RunConfig{Property: rf.Property, Mode: rf.Mode, Tier: rf.Tier, Seed: rf.Seed, Index: rf.Index}
	budget := time.Duration(envInt("VERIF_MIN_SECONDS", 60)) * time.Second
	start := time.Now()
	tried, kept := 0, 0
	cur := sc
	var last *Violation
	res := RunOne(t, e, cfg, cur)
	if last = sameViolation(res, rf.Expect); last == nil {
		fmt.Printf("MINIMIZE-NOREPRO\n")
		return
	}
	for progress := true; progress && time.Since(start) < budget; {
		progress = false
		for _, cand := range e.Shrink(cur) {
			if time.Since(start) > budget {
				break
			}
			tried++
			r := RunOne(t, e, cfg, cand)
			if v := sameViolation(r, rf.Expect); v != nil {
				cur, last, res = cand, v, r
				kept++
				progress = true
				break
			}
		}
	}
	raw, _ := json.Marshal(cur)
	rf.Scenario = raw
	rf.Expect = last
	rf.Log = res.Log
	outp := strings.TrimSuffix(path, ".json") + ".min.json"
	b, _ := json.MarshalIndent(rf, "", " ")
	_ = os.WriteFile(outp, b, 0o644)
	fmt.Printf("MINIMIZED tried=%d kept=%d out=%s\n", tried, kept, outp)
}
