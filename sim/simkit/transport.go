package simkit

import (
	"bytes"
	"context"
	"encoding/hex"
	"fmt"
	"sort"
	"sync"
	"sync/atomic"
	"time"

	"github.com/pingcap/kvproto/pkg/errorpb"
	"github.com/pingcap/kvproto/pkg/kvrpcpb"
	"github.com/tikv/client-go/v2/internal/client"
	"github.com/tikv/client-go/v2/tikvrpc"
	"github.com/tikv/client-go/v2/util/async"
	"google.golang.org/grpc/codes"
	"google.golang.org/grpc/status"
)

// Backend executes a request on the simulated TiKV cluster. It is only ever
// called on the simulator goroutine, one request at a time.
type Backend interface {
	SendRequest(ctx context.Context, addr string, req *tikvrpc.Request, timeout time.Duration) (*tikvrpc.Response, error)
}

// Fate is what the network does to one RPC.
type Fate string

// Fates.
const (
	Deliver      Fate = ""             // executed once, answered
	DropReq      Fate = "drop-req"     // never executed, caller sees an RPC error at once
	DropReqSlow  Fate = "drop-req-to"  // never executed, caller runs into its timeout
	DropResp     Fate = "drop-resp"    // executed, caller sees an RPC error
	DropRespSlow Fate = "drop-resp-to" // executed, caller runs into its timeout
	Dup          Fate = "dup"          // executed twice, first answer returned
	Delay        Fate = "delay"        // long latency before execution
	Stall        Fate = "stall"        // very long latency (seconds): locks outlive their ttl meanwhile
	CrashBefore  Fate = "crash-before" // the client dies; this request never leaves it
	CrashAfter   Fate = "crash-after"  // this request executes; the client dies before the answer
	// region errors synthesised without executing the request
	RENotLeader      Fate = "re-not-leader"
	RENotLeaderHint  Fate = "re-not-leader-hint"
	REEpochNotMatch  Fate = "re-epoch-not-match"
	REServerIsBusy   Fate = "re-server-busy"
	REStaleCommand   Fate = "re-stale-command"
	RERegionNotFound Fate = "re-region-not-found"
	REMaxTSNotSynced Fate = "re-max-ts-not-synced"
	REDiskFull       Fate = "re-disk-full"
	REUndetermined   Fate = "re-undetermined"
	REDataNotReady   Fate = "re-data-not-ready"
	REStoreNotMatch  Fate = "re-store-not-match"
	RERaftTooLarge   Fate = "re-raft-entry-too-large"
	REUnknown        Fate = "re-unknown"
	// rarer answers of a store (all synthesised without executing the request, as TiKV refuses them before proposing)
	RERecoveryInProgress   Fate = "re-recovery-in-progress"
	REIsWitness            Fate = "re-is-witness"
	REFlashbackInProgress  Fate = "re-flashback-in-progress" // a definite refusal: the caller gets an error at once
	RERegionNotInitialized Fate = "re-region-not-initialized"
	REKeyNotInRegion       Fate = "re-key-not-in-region"
	REMismatchPeerID       Fate = "re-mismatch-peer-id"
	REReadIndexNotReady    Fate = "re-read-index-not-ready"
	REProposalInMerging    Fate = "re-proposal-in-merging-mode"
	REServerIsBusyHint     Fate = "re-server-busy-hint" // with a suggested back-off and an estimated wait
	// ExecUndetermined: the request IS executed, the answer is the region error UndeterminedResult (TiKV could not
	// learn whether its proposal was applied): the caller must not take it for a refusal
	ExecUndetermined Fate = "exec-undetermined"
	TopoSplit        Fate = "topo-split"     // split the target region first, then execute
	TopoLeader       Fate = "topo-leader"    // move the leader first, then execute
	TopoSplitAfter   Fate = "topo-split-aft" // execute, then split (response still delivered)
	TopoMergeAfter   Fate = "topo-merge-aft" // execute, then merge the region with its right neighbour (response still delivered)
	// TopoSplitBetween: split the target region at one of the request's own keys other than the smallest, so that the
	// keys of this one request lie in two regions, then execute (a request with fewer than two keys: as topo-split)
	TopoSplitBetween Fate = "topo-split-between"
)

// IsRegionErr reports whether f is a synthesised region error.
func (f Fate) IsRegionErr() bool { return len(f) > 3 && f[:3] == "re-" }

// RPCRecord is the trace entry of one RPC attempt.
type RPCRecord struct {
	ID       int
	Client   int
	Addr     string
	Type     tikvrpc.CmdType
	Req      *tikvrpc.Request
	Identity string // stable identity (client, cmd, version, region, first key)
	Occ      int    // n-th RPC with this identity
	Ordinal  int    // n-th RPC of this client (0-based)
	Mark     string // marker of the client at submit time (e.g. "commit")
	MarkOrd  int    // n-th RPC of this client since the marker was set
	CmdOrd   int    // n-th RPC of this command type sent by this client
	Fate     Fate
	// stamps
	SubmitSeq, ExecSeq, DoneSeq uint64
	SubmitAt, ExecAt, DoneAt    time.Duration
	Executed                    bool
	Resp                        *tikvrpc.Response // genuine or synthesised response produced for this attempt
	ExecErr                     error
	Returned                    bool // the caller got Resp (not an error)
	RetErr                      error

	fkey    string        // plan key that decided Fate
	cutCh   chan struct{} // closed when the client is cut
	admitCh chan struct{} // closed when the simulator admitted the request
}

// Topo lets the network change the cluster when a fate asks for it.
type Topo interface {
	SplitAt(key []byte) bool
	MoveLeaderOf(key []byte) bool
}

// Net is the simulated network between all clients and the cluster.
type Net struct {
	Sim     *Sim
	Backend Backend
	Topo    Topo

	// Plan: explicit fates keyed by "id:<identity>#<occ>", "ord:<client>:<mark>+<n>" or
	// "cmd:<client>:<CmdType>+<n>" (the n-th request of that command type sent by the client).
	Plan map[string]Fate
	// Persist: "ord:<client>:<mark>+<n>" -> fate applied to the n-th and EVERY later request of that
	// client's marked phase (a fault that does not go away); "cmd:<client>:<CmdType>" -> fate of EVERY
	// request of that command type sent by the client (e.g. every clean-up message is lost).
	Persist map[string]Fate
	// Random fault rates (used when the key is not in Plan and RandomFaults is set).
	RandomFaults bool
	FaultRate    float64
	FaultKinds   []Fate
	// FaultFilter limits random faults to some requests (nil = all).
	FaultFilter func(*RPCRecord) bool

	MinLatency time.Duration
	Jitter     time.Duration

	mu         sync.Mutex
	trace      []*RPCRecord
	cut        map[int]chan struct{}
	cutAt      map[int]uint64
	ordinal    map[int]int
	mark       map[int]string
	markOrd    map[int]int
	cmdOrd     map[string]int
	tsoOrd     map[int]int
	lat        *Hasher
	fault      *Hasher
	Fired      []FiredFault
	down       chan struct{} // closed by Shutdown: every parked caller returns
	pending    []*RPCRecord  // submitted, not yet admitted (see admit)
	inflight   atomic.Int64
	lastSubmit atomic.Int64
	// Describe renders the cluster layout for diagnostics.
	Describe func() string
	// Panics of the backend's handlers (e.g. the mock's "key not in region").
	Panics []string
	// Observers are called on the simulator goroutine (phase "exec" after
	// execution, "submit" from the caller goroutine at submission).
	OnSubmit func(*RPCRecord)
	OnExec   func(*RPCRecord)
}

// FiredFault records a fault that actually took effect.
type FiredFault struct {
	Key  string `json:"key"`
	Fate Fate   `json:"fate"`
	Cmd  string `json:"cmd"`
}

// NewNet creates the network.
func NewNet(s *Sim, b Backend) *Net {
	n := &Net{
		Sim: s, Backend: b,
		Plan:       map[string]Fate{},
		Persist:    map[string]Fate{},
		MinLatency: 200 * time.Microsecond,
		Jitter:     3 * time.Millisecond,
		cut:        map[int]chan struct{}{},
		cutAt:      map[int]uint64{},
		ordinal:    map[int]int{},
		mark:       map[int]string{},
		markOrd:    map[int]int{},
		cmdOrd:     map[string]int{},
		tsoOrd:     map[int]int{},
		down:       make(chan struct{}),
		lat:        NewHasher(s.Seed, "latency"),
		fault:      NewHasher(s.Seed, "fault"),
	}
	s.OnQuiescent = append(s.OnQuiescent, n.admitPending)
	return n
}

// admit blocks the caller until the simulator has admitted its request. Requests submitted during
// the same quiescence interval (e.g. the concurrently sent batches of one commit) are admitted in a
// canonical order (client, identity), so that ordinals, occurrence numbers, stamps and therefore
// fates do not depend on the order in which the Go scheduler ran the submitting goroutines.
func (n *Net) admit(rec *RPCRecord) {
	n.mu.Lock()
	if !n.Sim.Running() {
		n.mu.Unlock()
		n.admitOne(rec)
		return
	}
	rec.admitCh = make(chan struct{})
	n.pending = append(n.pending, rec)
	n.mu.Unlock()
	n.Sim.Wake()
	<-rec.admitCh
}

// admitPending runs on the simulator goroutine at quiescence.
func (n *Net) admitPending() bool {
	n.mu.Lock()
	p := n.pending
	n.pending = nil
	n.mu.Unlock()
	if len(p) == 0 {
		return false
	}
	sort.SliceStable(p, func(i, j int) bool {
		if p[i].Client != p[j].Client {
			return p[i].Client < p[j].Client
		}
		return p[i].Identity < p[j].Identity
	})
	for _, rec := range p {
		n.admitOne(rec)
		close(rec.admitCh)
	}
	return true
}

// admitOne numbers the request, decides its fate and applies a crash-before.
func (n *Net) admitOne(rec *RPCRecord) {
	c := rec.Client
	n.mu.Lock()
	rec.ID = len(n.trace)
	rec.Ordinal = n.ordinal[c]
	n.ordinal[c]++
	rec.Mark = n.mark[c]
	rec.MarkOrd = n.markOrd[c]
	n.markOrd[c]++
	ck := fmt.Sprintf("%d:%s", c, rec.Type.String())
	rec.CmdOrd = n.cmdOrd[ck]
	n.cmdOrd[ck]++
	rec.cutCh = n.cutChLocked(c)
	n.trace = append(n.trace, rec)
	n.mu.Unlock()
	rec.Occ = n.Sim.Occ(rec.Identity)
	rec.SubmitSeq = n.Sim.Stamp()
	rec.SubmitAt = n.Sim.Now()
	n.lastSubmit.Store(int64(rec.SubmitAt))
	select {
	case <-rec.cutCh:
		rec.Fate = "cut"
		rec.RetErr = ErrSimCut
		return
	default:
	}
	rec.Fate, rec.fkey = n.fateFor(rec)
	if n.OnSubmit != nil {
		n.OnSubmit(rec)
	}
	if rec.Fate == CrashBefore {
		n.mu.Lock()
		n.Fired = append(n.Fired, FiredFault{Key: rec.fkey, Fate: rec.Fate, Cmd: rec.Type.String()})
		n.cutLocked(c)
		n.mu.Unlock()
		n.Sim.Count("fault." + string(rec.Fate))
		rec.RetErr = ErrSimCut
	}
}

// Shutdown releases every caller still parked in the network or in a simulated PD
// (end of run: the simulator loop no longer processes events).
func (n *Net) Shutdown() {
	select {
	case <-n.down:
	default:
		close(n.down)
	}
}

// Down is closed by Shutdown.
func (n *Net) Down() <-chan struct{} { return n.down }

// Quiet reports whether no RPC is in flight and none was submitted during the last d of simulated time.
func (n *Net) Quiet(d time.Duration) bool {
	return n.inflight.Load() == 0 && n.Sim.Now()-time.Duration(n.lastSubmit.Load()) >= d
}

// Trace returns the RPC trace so far.
func (n *Net) Trace() []*RPCRecord {
	n.mu.Lock()
	defer n.mu.Unlock()
	return append([]*RPCRecord(nil), n.trace...)
}

// TSOFate is consulted by the simulated PD for every TSO request of client c: a
// plan entry "tso:<client>:<mark>+<n>" can crash the client at that point.
func (n *Net) TSOFate(c int) Fate {
	n.mu.Lock()
	key := fmt.Sprintf("tso:%d:%s+%d", c, n.mark[c], n.tsoOrd[c])
	n.tsoOrd[c]++
	f, ok := n.Plan[key]
	n.mu.Unlock()
	if ok && (f == CrashBefore || f == CrashAfter) {
		n.mu.Lock()
		n.Fired = append(n.Fired, FiredFault{Key: key, Fate: f, Cmd: "TSO"})
		n.cutLocked(c)
		n.mu.Unlock()
		n.Sim.Count("fault." + string(f) + ".tso")
		return f
	}
	return Deliver
}

// SetMark names the phase client c is in; RPC ordinals restart at the marker.
func (n *Net) SetMark(c int, mark string) {
	n.mu.Lock()
	n.mark[c] = mark
	n.markOrd[c] = 0
	n.tsoOrd[c] = 0
	n.mu.Unlock()
}

// Cut crashes client c: nothing it sends from now on takes effect and everything
// it waits for fails.
func (n *Net) Cut(c int) {
	n.mu.Lock()
	defer n.mu.Unlock()
	n.cutLocked(c)
}

func (n *Net) cutLocked(c int) {
	ch := n.cutChLocked(c)
	select {
	case <-ch:
	default:
		close(ch)
		n.cutAt[c] = n.Sim.Stamp()
		n.Sim.Count("fault.client-cut")
	}
}

func (n *Net) cutChLocked(c int) chan struct{} {
	ch, ok := n.cut[c]
	if !ok {
		ch = make(chan struct{})
		n.cut[c] = ch
	}
	return ch
}

// CutCh is closed when client c is cut.
func (n *Net) CutCh(c int) <-chan struct{} {
	n.mu.Lock()
	defer n.mu.Unlock()
	return n.cutChLocked(c)
}

// IsCut reports whether client c was cut.
func (n *Net) IsCut(c int) bool {
	select {
	case <-n.CutCh(c):
		return true
	default:
		return false
	}
}

// CutSeq returns the stamp at which client c was cut (0 = not cut).
func (n *Net) CutSeq(c int) uint64 {
	n.mu.Lock()
	defer n.mu.Unlock()
	return n.cutAt[c]
}

// CutAll cuts every known client (used when a run is aborted).
func (n *Net) CutAll(clients int) {
	for c := 0; c < clients; c++ {
		n.Cut(c)
	}
}

// ErrSimConn is the RPC error of a lost message.
var ErrSimConn = status.Error(codes.Unavailable, "sim: connection lost")

// ErrSimCut is what a crashed client sees.
var ErrSimCut = status.Error(codes.Unavailable, "sim: client is cut off")

// Conn is the tikv.Client of one simulated client process.
type Conn struct {
	Net *Net
	ID  int
}

var _ client.Client = (*Conn)(nil)

// NewConn returns the transport endpoint of client id.
func (n *Net) NewConn(id int) *Conn { return &Conn{Net: n, ID: id} }

// Close implements tikv.Client.
func (c *Conn) Close() error { return nil }

// CloseAddr implements tikv.Client.
func (c *Conn) CloseAddr(addr string) error { return nil }

// SetEventListener implements tikv.Client.
func (c *Conn) SetEventListener(client.ClientEventListener) {}

// SendRequestAsync implements tikv.Client.
func (c *Conn) SendRequestAsync(ctx context.Context, addr string, req *tikvrpc.Request, cb async.Callback[*tikvrpc.Response]) {
	go func() {
		cb.Schedule(c.SendRequest(ctx, addr, req, 0))
	}()
}

// firstKeyOf names a request by ONE of its keys: the smallest. (Several requests of the library list their keys in the
// iteration order of a Go map - the keys of a pessimistic rollback, for one - so "the first key" would make the
// request's identity, and with it its latency and its fate, differ between two executions of the same run.)
func firstKeyOf(req *tikvrpc.Request) []byte {
	minOf := func(ks [][]byte) []byte {
		var m []byte
		for i, k := range ks {
			if i == 0 || bytes.Compare(k, m) < 0 {
				m = k
			}
		}
		return m
	}
	minMut := func(ms []*kvrpcpb.Mutation) []byte {
		var m []byte
		for i, x := range ms {
			if i == 0 || bytes.Compare(x.Key, m) < 0 {
				m = x.Key
			}
		}
		return m
	}
	switch r := req.Req.(type) {
	case *kvrpcpb.GetRequest:
		return r.Key
	case *kvrpcpb.ScanRequest:
		return r.StartKey
	case *kvrpcpb.PrewriteRequest:
		if len(r.Mutations) > 0 {
			return minMut(r.Mutations)
		}
	case *kvrpcpb.CommitRequest:
		if len(r.Keys) > 0 {
			return minOf(r.Keys)
		}
	case *kvrpcpb.BatchGetRequest:
		if len(r.Keys) > 0 {
			return minOf(r.Keys)
		}
	case *kvrpcpb.BatchRollbackRequest:
		if len(r.Keys) > 0 {
			return minOf(r.Keys)
		}
	case *kvrpcpb.PessimisticLockRequest:
		if len(r.Mutations) > 0 {
			return minMut(r.Mutations)
		}
	case *kvrpcpb.PessimisticRollbackRequest:
		if len(r.Keys) > 0 {
			return minOf(r.Keys)
		}
	case *kvrpcpb.CheckTxnStatusRequest:
		return r.PrimaryKey
	case *kvrpcpb.CheckSecondaryLocksRequest:
		if len(r.Keys) > 0 {
			return minOf(r.Keys)
		}
	case *kvrpcpb.TxnHeartBeatRequest:
		return r.PrimaryLock
	case *kvrpcpb.CleanupRequest:
		return r.Key
	case *kvrpcpb.ResolveLockRequest:
		if len(r.Keys) > 0 {
			return minOf(r.Keys)
		}
	case *kvrpcpb.ScanLockRequest:
		return r.StartKey
	case *kvrpcpb.FlushRequest:
		if len(r.Mutations) > 0 {
			return minMut(r.Mutations)
		}
	case *kvrpcpb.BufferBatchGetRequest:
		if len(r.Keys) > 0 {
			return minOf(r.Keys)
		}
	case *kvrpcpb.RawGetRequest:
		return r.Key
	case *kvrpcpb.RawPutRequest:
		return r.Key
	case *kvrpcpb.RawDeleteRequest:
		return r.Key
	case *kvrpcpb.RawScanRequest:
		return r.StartKey
	case *kvrpcpb.RawDeleteRangeRequest:
		return r.StartKey
	case *kvrpcpb.RawBatchGetRequest:
		if len(r.Keys) > 0 {
			return minOf(r.Keys)
		}
	case *kvrpcpb.RawBatchPutRequest:
		if len(r.Pairs) > 0 {
			return r.Pairs[0].Key
		}
	case *kvrpcpb.RawBatchDeleteRequest:
		if len(r.Keys) > 0 {
			return minOf(r.Keys)
		}
	case *kvrpcpb.RawCASRequest:
		return r.Key
	case *kvrpcpb.RawChecksumRequest:
		if len(r.Ranges) > 0 {
			return r.Ranges[0].StartKey
		}
	case *kvrpcpb.DeleteRangeRequest:
		return r.StartKey
	case *kvrpcpb.GCRequest:
		return nil
	}
	return nil
}

// VersionOf extracts the transaction timestamp a request works for.
func VersionOf(req *tikvrpc.Request) uint64 {
	switch r := req.Req.(type) {
	case *kvrpcpb.GetRequest:
		return r.Version
	case *kvrpcpb.ScanRequest:
		return r.Version
	case *kvrpcpb.PrewriteRequest:
		return r.StartVersion
	case *kvrpcpb.CommitRequest:
		return r.StartVersion
	case *kvrpcpb.BatchGetRequest:
		return r.Version
	case *kvrpcpb.BatchRollbackRequest:
		return r.StartVersion
	case *kvrpcpb.PessimisticLockRequest:
		return r.StartVersion
	case *kvrpcpb.PessimisticRollbackRequest:
		return r.StartVersion
	case *kvrpcpb.CheckTxnStatusRequest:
		return r.LockTs
	case *kvrpcpb.CheckSecondaryLocksRequest:
		return r.StartVersion
	case *kvrpcpb.TxnHeartBeatRequest:
		return r.StartVersion
	case *kvrpcpb.CleanupRequest:
		return r.StartVersion
	case *kvrpcpb.ResolveLockRequest:
		return r.StartVersion
	case *kvrpcpb.ScanLockRequest:
		return r.MaxVersion
	case *kvrpcpb.FlushRequest:
		return r.StartTs
	case *kvrpcpb.BufferBatchGetRequest:
		return r.Version
	}
	return 0
}

func identityOf(c int, req *tikvrpc.Request) string {
	k := firstKeyOf(req)
	return fmt.Sprintf("c%d/%s/v%d/r%d/%s", c, req.Type.String(), VersionOf(req), req.Context.GetRegionId(), hex.EncodeToString(k))
}

type rpcResult struct {
	resp *tikvrpc.Response
	err  error
}

func (n *Net) latency(key string, leg string) time.Duration {
	if n.Jitter <= 0 {
		return n.MinLatency
	}
	return n.MinLatency + time.Duration(n.lat.U64(leg+key)%uint64(n.Jitter))
}

func (n *Net) fateFor(rec *RPCRecord) (Fate, string) {
	idKey := fmt.Sprintf("id:%s#%d", rec.Identity, rec.Occ)
	ordKey := fmt.Sprintf("ord:%d:%s+%d", rec.Client, rec.Mark, rec.MarkOrd)
	if f, ok := n.Plan[ordKey]; ok {
		return f, ordKey
	}
	for i := rec.MarkOrd; i >= 0 && len(n.Persist) > 0; i-- {
		k := fmt.Sprintf("ord:%d:%s+%d", rec.Client, rec.Mark, i)
		if f, ok := n.Persist[k]; ok {
			return f, k + ".."
		}
	}
	if f, ok := n.Plan[idKey]; ok {
		return f, idKey
	}
	if len(n.Plan) > 0 || len(n.Persist) > 0 {
		cmdKey := fmt.Sprintf("cmd:%d:%s+%d", rec.Client, rec.Type.String(), rec.CmdOrd)
		if f, ok := n.Plan[cmdKey]; ok {
			return f, cmdKey
		}
		pk := fmt.Sprintf("cmd:%d:%s", rec.Client, rec.Type.String())
		if f, ok := n.Persist[pk]; ok {
			return f, pk + ".."
		}
	}
	if n.RandomFaults && len(n.FaultKinds) > 0 && (n.FaultFilter == nil || n.FaultFilter(rec)) {
		if n.fault.Float(idKey) < n.FaultRate {
			return n.FaultKinds[n.fault.Intn("kind"+idKey, len(n.FaultKinds))], idKey
		}
	}
	return Deliver, idKey
}

func (n *Net) fired(key string, rec *RPCRecord) {
	n.mu.Lock()
	defer n.mu.Unlock()
	n.Fired = append(n.Fired, FiredFault{Key: key, Fate: rec.Fate, Cmd: rec.Type.String()})
	n.Sim.Count("fault." + string(rec.Fate))
}

// SendRequest implements tikv.Client: the request is parked until the simulator
// decides what happens to it.
func (c *Conn) SendRequest(ctx context.Context, addr string, req *tikvrpc.Request, timeout time.Duration) (*tikvrpc.Response, error) {
	n := c.Net
	if req.Type == tikvrpc.CmdStoreSafeTS {
		// periodic background probe of every store by every client; irrelevant to all checked
		// properties, answered in place to keep the event stream small
		if n.IsCut(c.ID) {
			return nil, ErrSimCut
		}
		return &tikvrpc.Response{Resp: &kvrpcpb.StoreSafeTSResponse{}}, nil
	}
	// the wire hop of the real client
	tikvrpc.AttachContext(req, req.Context)
	// The caller's *tikvrpc.Request is pooled by the v1 codec and reused as soon as the call
	// returns; the network keeps its own copy of the message, as a real wire would.
	snap := *req
	req = &snap

	rec := &RPCRecord{Client: c.ID, Addr: addr, Type: req.Type, Req: req}
	rec.Identity = identityOf(c.ID, req)
	n.inflight.Add(1)
	defer n.inflight.Add(-1)
	n.admit(rec)
	if rec.Fate == "cut" || rec.Fate == CrashBefore {
		stagger(rec)
		return nil, ErrSimCut
	}
	cutCh, fkey := rec.cutCh, rec.fkey

	ch := make(chan rpcResult, 1)
	idk := fmt.Sprintf("%s#%d", rec.Identity, rec.Occ)
	lat := n.latency(idk, "req")
	if rec.Fate == Delay {
		lat += time.Duration(50+n.lat.Intn("delay"+idk, 3000)) * time.Millisecond
		n.fired(fkey, rec)
	}
	if rec.Fate == Stall {
		lat += time.Duration(4000+n.lat.Intn("stall"+idk, 30000)) * time.Millisecond
		n.fired(fkey, rec)
	}
	tie := n.lat.U64("tie" + idk)
	n.Sim.Submit("rpc:"+idk, lat, tie, func() { n.arrive(rec, fkey, ch, ctx) })

	var timer <-chan time.Time
	if timeout > 0 {
		t := time.NewTimer(timeout)
		defer t.Stop()
		timer = t.C
	}
	select {
	case r := <-ch:
		if r.err == nil {
			rec.Returned = true
		}
		rec.RetErr = r.err
		rec.DoneSeq = n.Sim.Stamp()
		rec.DoneAt = n.Sim.Now()
		return r.resp, r.err
	case <-ctx.Done():
		stagger(rec)
		rec.RetErr = ctx.Err()
		rec.DoneSeq = n.Sim.Stamp()
		return nil, ctx.Err()
	case <-timer:
		stagger(rec)
		rec.RetErr = context.DeadlineExceeded
		rec.DoneSeq = n.Sim.Stamp()
		return nil, context.DeadlineExceeded
	case <-cutCh:
		stagger(rec)
		rec.RetErr = ErrSimCut
		rec.DoneSeq = n.Sim.Stamp()
		return nil, ErrSimCut
	case <-n.down:
		rec.RetErr = ErrSimCut
		return nil, ErrSimCut
	}
}

// keysOf lists the keys of the multi-key requests of the transactional protocol (nil for the others).
func keysOf(req *tikvrpc.Request) [][]byte {
	var out [][]byte
	switch r := req.Req.(type) {
	case *kvrpcpb.PrewriteRequest:
		for _, m := range r.Mutations {
			out = append(out, m.Key)
		}
	case *kvrpcpb.PessimisticLockRequest:
		for _, m := range r.Mutations {
			out = append(out, m.Key)
		}
	case *kvrpcpb.CommitRequest:
		out = r.Keys
	case *kvrpcpb.BatchGetRequest:
		out = r.Keys
	case *kvrpcpb.BatchRollbackRequest:
		out = r.Keys
	case *kvrpcpb.PessimisticRollbackRequest:
		out = r.Keys
	case *kvrpcpb.CheckSecondaryLocksRequest:
		out = r.Keys
	case *kvrpcpb.ResolveLockRequest:
		out = r.Keys
	}
	return append([][]byte(nil), out...)
}

// proposes: the commands a store turns into a raft proposal (only those can end with an undetermined result).
func proposes(t tikvrpc.CmdType) bool {
	switch t {
	case tikvrpc.CmdPrewrite, tikvrpc.CmdCommit, tikvrpc.CmdPessimisticLock, tikvrpc.CmdPessimisticRollback, tikvrpc.CmdBatchRollback,
		tikvrpc.CmdResolveLock, tikvrpc.CmdCleanup, tikvrpc.CmdCheckTxnStatus, tikvrpc.CmdCheckSecondaryLocks, tikvrpc.CmdTxnHeartBeat,
		tikvrpc.CmdFlush, tikvrpc.CmdRawPut, tikvrpc.CmdRawDelete, tikvrpc.CmdRawBatchPut, tikvrpc.CmdRawBatchDelete, tikvrpc.CmdRawDeleteRange, tikvrpc.CmdRawCompareAndSwap:
		return true
	}
	return false
}

// stagger: a cancelled context, a crash of the client or a common time-out wakes every caller of that client that is
// parked in the network at the same simulated instant; on several processors they would then run in parallel and reach
// shared state of the library (the global random source of the back-off jitter, the region cache) in an order nobody
// decides. Each caller therefore leaves the network a few nanoseconds of simulated time apart, in admission order.
func stagger(rec *RPCRecord) {
	time.Sleep(time.Duration(1+rec.ID%100000) * time.Nanosecond)
}

// arrive runs on the simulator goroutine when the request reaches the server.
func (n *Net) arrive(rec *RPCRecord, fkey string, ch chan rpcResult, ctx context.Context) {
	idk := fmt.Sprintf("%s#%d", rec.Identity, rec.Occ)
	if n.IsCut(rec.Client) {
		// in flight when the client died: it may or may not still arrive.
		if n.fault.Intn("inflight"+idk, 2) == 0 {
			n.Sim.Count("crash.inflight-lost")
			return
		}
		n.Sim.Count("crash.inflight-arrived")
		n.exec(rec)
		return
	}
	respond := func(r rpcResult, extra time.Duration) {
		n.Sim.Submit("resp:"+idk, n.latency(idk, "resp")+extra, n.lat.U64("rtie"+idk), func() { ch <- r })
	}
	switch f := rec.Fate; {
	case f == Deliver || f == Delay || f == Stall:
		n.exec(rec)
		respond(rpcResult{rec.Resp, rec.ExecErr}, 0)
	case f == DropReq:
		n.fired(fkey, rec)
		respond(rpcResult{nil, ErrSimConn}, 0)
	case f == DropReqSlow:
		n.fired(fkey, rec) // caller runs into its own timeout
	case f == DropResp:
		n.fired(fkey, rec)
		n.exec(rec)
		respond(rpcResult{nil, ErrSimConn}, 0)
	case f == DropRespSlow:
		n.fired(fkey, rec)
		n.exec(rec)
	case f == Dup:
		n.fired(fkey, rec)
		n.exec(rec)
		first := rpcResult{rec.Resp, rec.ExecErr}
		respond(first, 0)
		n.Sim.Submit("dup:"+idk, n.latency(idk, "dup")*3, n.lat.U64("dtie"+idk), func() {
			n.Sim.Count("dup.second-exec")
			_, _ = n.safeSend(rec, cloneReq(rec.Req))
		})
	case f == CrashAfter:
		n.fired(fkey, rec)
		n.exec(rec)
		n.Cut(rec.Client)
	case f == ExecUndetermined:
		n.exec(rec)
		if rec.ExecErr == nil && proposes(rec.Type) {
			n.fired(fkey, rec)
			if resp, err := tikvrpc.GenRegionErrorResp(rec.Req, &errorpb.Error{Message: "sim", UndeterminedResult: &errorpb.UndeterminedResult{Message: "sim"}}); err == nil {
				rec.Resp = resp
			}
		}
		respond(rpcResult{rec.Resp, rec.ExecErr}, 0)
	case f.IsRegionErr():
		n.fired(fkey, rec)
		resp, err := tikvrpc.GenRegionErrorResp(rec.Req, regionErrFor(f, rec))
		rec.Resp = resp
		rec.ExecErr = err
		rec.ExecSeq = n.Sim.Stamp()
		rec.ExecAt = n.Sim.Now()
		if n.OnExec != nil {
			n.OnExec(rec)
		}
		respond(rpcResult{resp, err}, 0)
	case f == TopoSplitBetween:
		ok := false
		if n.Topo != nil {
			ks := keysOf(rec.Req)
			sort.Slice(ks, func(i, j int) bool { return bytes.Compare(ks[i], ks[j]) < 0 })
			at := firstKeyOf(rec.Req)
			if len(ks) >= 2 {
				at = ks[1+n.fault.Intn("between"+idk, len(ks)-1)]
			}
			if x, is := n.Topo.(interface{ SplitExactly(key []byte) bool }); is {
				ok = x.SplitExactly(at)
			} else {
				ok = n.Topo.SplitAt(at)
			}
		}
		if ok {
			n.fired(fkey, rec)
		}
		n.exec(rec)
		respond(rpcResult{rec.Resp, rec.ExecErr}, 0)
	case f == TopoSplit || f == TopoLeader:
		ok := false
		if n.Topo != nil {
			if f == TopoSplit {
				ok = n.Topo.SplitAt(firstKeyOf(rec.Req))
			} else {
				ok = n.Topo.MoveLeaderOf(firstKeyOf(rec.Req))
			}
		}
		if ok {
			n.fired(fkey, rec)
		}
		n.exec(rec)
		respond(rpcResult{rec.Resp, rec.ExecErr}, 0)
	case f == TopoSplitAfter:
		n.exec(rec)
		if n.Topo != nil && n.Topo.SplitAt(firstKeyOf(rec.Req)) {
			n.fired(fkey, rec)
		}
		respond(rpcResult{rec.Resp, rec.ExecErr}, 0)
	case f == TopoMergeAfter:
		n.exec(rec)
		if m, ok := n.Topo.(interface{ MergeAt(key []byte) bool }); ok && m.MergeAt(firstKeyOf(rec.Req)) {
			n.fired(fkey, rec)
		}
		respond(rpcResult{rec.Resp, rec.ExecErr}, 0)
	default:
		n.exec(rec)
		respond(rpcResult{rec.Resp, rec.ExecErr}, 0)
	}
}

func (n *Net) exec(rec *RPCRecord) {
	rec.ExecSeq = n.Sim.Stamp()
	rec.ExecAt = n.Sim.Now()
	rec.Executed = true
	rec.Resp, rec.ExecErr = n.safeSend(rec, rec.Req)
	if n.OnExec != nil {
		n.OnExec(rec)
	}
}

// safeSend executes req on the backend; a panic of the handler is recorded and
// turned into an RPC error.
func (n *Net) safeSend(rec *RPCRecord, req *tikvrpc.Request) (resp *tikvrpc.Response, err error) {
	defer func() {
		if r := recover(); r != nil {
			msg := fmt.Sprint(r)
			layout := ""
			if n.Describe != nil {
				layout = " cluster=" + n.Describe()
			}
			n.Panics = append(n.Panics, fmt.Sprintf("%s: %s#%d req=%s ctx={region %d epoch %v}%s", msg, rec.Identity, rec.Occ, req.Req, req.Context.GetRegionId(), req.Context.GetRegionEpoch(), layout))
			n.Sim.Count("backend.panic")
			resp, err = nil, status.Error(codes.Internal, "sim: server panicked: "+msg)
		}
	}()
	return n.Backend.SendRequest(context.Background(), rec.Addr, req, 0)
}

func cloneReq(req *tikvrpc.Request) *tikvrpc.Request {
	c := *req
	return &c
}

func regionErrFor(f Fate, rec *RPCRecord) *errorpb.Error {
	rid := rec.Req.Context.GetRegionId()
	switch f {
	case RENotLeader:
		return &errorpb.Error{Message: "sim", NotLeader: &errorpb.NotLeader{RegionId: rid}}
	case RENotLeaderHint:
		return &errorpb.Error{Message: "sim", NotLeader: &errorpb.NotLeader{RegionId: rid, Leader: rec.Req.Context.GetPeer()}}
	case REEpochNotMatch:
		return &errorpb.Error{Message: "sim", EpochNotMatch: &errorpb.EpochNotMatch{}}
	case REServerIsBusy:
		return &errorpb.Error{Message: "sim", ServerIsBusy: &errorpb.ServerIsBusy{Reason: "sim"}}
	case REStaleCommand:
		return &errorpb.Error{Message: "sim", StaleCommand: &errorpb.StaleCommand{}}
	case RERegionNotFound:
		return &errorpb.Error{Message: "sim", RegionNotFound: &errorpb.RegionNotFound{RegionId: rid}}
	case REMaxTSNotSynced:
		return &errorpb.Error{Message: "sim", MaxTimestampNotSynced: &errorpb.MaxTimestampNotSynced{}}
	case REDiskFull:
		return &errorpb.Error{Message: "sim", DiskFull: &errorpb.DiskFull{StoreId: []uint64{1}, Reason: "sim"}}
	case REUndetermined:
		return &errorpb.Error{Message: "sim", UndeterminedResult: &errorpb.UndeterminedResult{Message: "sim"}}
	case REDataNotReady:
		return &errorpb.Error{Message: "sim", DataIsNotReady: &errorpb.DataIsNotReady{RegionId: rid}}
	case REStoreNotMatch:
		return &errorpb.Error{Message: "sim", StoreNotMatch: &errorpb.StoreNotMatch{}}
	case RERaftTooLarge:
		return &errorpb.Error{Message: "sim", RaftEntryTooLarge: &errorpb.RaftEntryTooLarge{RegionId: rid}}
	case RERecoveryInProgress:
		return &errorpb.Error{Message: "sim", RecoveryInProgress: &errorpb.RecoveryInProgress{RegionId: rid}}
	case REIsWitness:
		return &errorpb.Error{Message: "sim", IsWitness: &errorpb.IsWitness{RegionId: rid}}
	case REFlashbackInProgress:
		return &errorpb.Error{Message: "sim", FlashbackInProgress: &errorpb.FlashbackInProgress{RegionId: rid, FlashbackStartTs: 1}}
	case RERegionNotInitialized:
		return &errorpb.Error{Message: "sim", RegionNotInitialized: &errorpb.RegionNotInitialized{RegionId: rid}}
	case REKeyNotInRegion:
		return &errorpb.Error{Message: "sim", KeyNotInRegion: &errorpb.KeyNotInRegion{Key: firstKeyOf(rec.Req), RegionId: rid}}
	case REMismatchPeerID:
		return &errorpb.Error{Message: "sim", MismatchPeerId: &errorpb.MismatchPeerId{RequestPeerId: rec.Req.Context.GetPeer().GetId(), StorePeerId: rec.Req.Context.GetPeer().GetId() + 1000}}
	case REReadIndexNotReady:
		return &errorpb.Error{Message: "sim", ReadIndexNotReady: &errorpb.ReadIndexNotReady{RegionId: rid, Reason: "sim"}}
	case REProposalInMerging:
		return &errorpb.Error{Message: "sim", ProposalInMergingMode: &errorpb.ProposalInMergingMode{RegionId: rid}}
	case REServerIsBusyHint:
		return &errorpb.Error{Message: "sim", ServerIsBusy: &errorpb.ServerIsBusy{Reason: "sim", BackoffMs: 40, EstimatedWaitMs: 120}}
	}
	return &errorpb.Error{Message: "sim: unknown region error"}
}
