package simkit

import (
	"encoding/binary"
	"hash/fnv"
	"math/rand"
)

// Hasher derives choices from (seed, stream, key): the same key always gets the
// same choice whatever the arrival order of events, which keeps a run a pure
// function of the seed even if goroutines woken by one event run in a
// different relative order.
type Hasher struct {
	seed   uint64
	stream string
}

// NewHasher creates a hasher for one stream of decisions.
func NewHasher(seed uint64, stream string) *Hasher { return &Hasher{seed: seed, stream: stream} }

// U64 returns a 64-bit value for key.
func (h *Hasher) U64(key string) uint64 {
	f := fnv.New64a()
	var b [8]byte
	binary.LittleEndian.PutUint64(b[:], h.seed)
	f.Write(b[:])
	f.Write([]byte(h.stream))
	f.Write([]byte{0})
	f.Write([]byte(key))
	x := f.Sum64()
	// final avalanche (splitmix64)
	x ^= x >> 30
	x *= 0xbf58476d1ce4e5b9
	x ^= x >> 27
	x *= 0x94d049bb133111eb
	x ^= x >> 31
	return x
}

// Float returns a value in [0,1).
func (h *Hasher) Float(key string) float64 {
	return float64(h.U64(key)>>11) / float64(1<<53)
}

// Intn returns a value in [0,n).
func (h *Hasher) Intn(key string, n int) int {
	if n <= 1 {
		return 0
	}
	return int(h.U64(key) % uint64(n))
}

// Rand returns a math/rand generator for sequential draws (program generation).
func Rand(seed uint64, stream string) *rand.Rand {
	return rand.New(rand.NewSource(int64(NewHasher(seed, stream).U64("rand"))))
}
