package simkit

import (
	"bytes"
	"fmt"
	"sort"

	"github.com/pingcap/kvproto/pkg/kvrpcpb"
	"github.com/tikv/client-go/v2/internal/mockstore/mocktikv"
)

// Cluster wraps the repository's mock cluster (regions, stores, epochs) with the
// topology operations the simulator injects. The region/epoch/leader checks of
// every backend are the repository's own (mocktikv.Session).
type Cluster struct {
	C        *mocktikv.Cluster
	StoreIDs []uint64
	Sim      *Sim
}

// Bootstrap creates nStores stores, one region with a peer on every store, and
// splits it at the given raw keys.
func Bootstrap(s *Sim, c *mocktikv.Cluster, nStores int, splits [][]byte) *Cluster {
	cl := &Cluster{C: c, Sim: s}
	storeIDs, _, _, _ := mocktikv.BootstrapWithMultiStores(c, nStores)
	cl.StoreIDs = storeIDs
	sp := append([][]byte(nil), splits...)
	sort.Slice(sp, func(i, j int) bool { return bytes.Compare(sp[i], sp[j]) < 0 })
	for _, k := range sp {
		cl.SplitAt(k)
	}
	return cl
}

// SplitAt splits the region containing key at key (no-op if key is its start).
func (cl *Cluster) SplitAt(key []byte) bool {
	if len(key) == 0 {
		return false
	}
	region, leader, _, _ := cl.C.GetRegionByKey(mocktikv.NewMvccKey(key))
	if region == nil {
		return false
	}
	if bytes.Equal(region.StartKey, mocktikv.NewMvccKey(key)) {
		return false
	}
	newRegionID := cl.C.AllocID()
	peerIDs := cl.C.AllocIDs(len(region.Peers))
	var leaderPeer uint64
	for i, p := range region.Peers {
		if leader != nil && p.StoreId == leader.StoreId {
			leaderPeer = peerIDs[i]
		}
	}
	if leaderPeer == 0 {
		leaderPeer = peerIDs[0]
	}
	cl.C.VerifSplit(region.Id, newRegionID, key, peerIDs, leaderPeer)
	if cl.Sim != nil {
		cl.Sim.Count("topo.split")
	}
	return true
}

// RangeOf returns the raw (decoded) bounds of the region containing key (empty = unbounded).
func (cl *Cluster) RangeOf(key []byte) (start, end []byte) {
	region, _, _, _ := cl.C.GetRegionByKey(mocktikv.NewMvccKey(key))
	if region == nil {
		return nil, nil
	}
	return mocktikv.MvccKey(region.StartKey).Raw(), mocktikv.MvccKey(region.EndKey).Raw()
}

// InnerSplitTopo is a Topo for request-attached split fates that cuts the region a request goes to either at
// the request's first key (as Cluster does) or, every other time by hash, at a key of Keys strictly inside that
// region - so that the keys of one batched or ranged request end up on both sides of the new border.
type InnerSplitTopo struct {
	Cl     *Cluster
	Keys   [][]byte
	H      *Hasher
	Always bool // never fall back to the request's first key
	n      int
}

// SplitAt implements Topo.
func (t *InnerSplitTopo) SplitAt(key []byte) bool {
	t.n++
	tag := fmt.Sprintf("%q#%d", key, t.n)
	if !t.Always && t.H.Intn("how"+tag, 2) == 0 {
		return t.Cl.SplitAt(key)
	}
	lo, hi := t.Cl.RangeOf(key)
	var cands [][]byte
	for _, k := range t.Keys {
		if bytes.Compare(k, lo) > 0 && (len(hi) == 0 || bytes.Compare(k, hi) < 0) {
			cands = append(cands, k)
		}
	}
	if len(cands) == 0 {
		return t.Cl.SplitAt(key)
	}
	return t.Cl.SplitAt(cands[t.H.Intn("at"+tag, len(cands))])
}

// SplitExactly cuts at key itself (fates that name their own split point).
func (t *InnerSplitTopo) SplitExactly(key []byte) bool { return t.Cl.SplitAt(key) }

// MoveLeaderOf implements Topo.
func (t *InnerSplitTopo) MoveLeaderOf(key []byte) bool { return t.Cl.MoveLeaderOf(key) }

// MergeAt merges the region containing key with its right neighbour.
func (t *InnerSplitTopo) MergeAt(key []byte) bool { return t.Cl.MergeAt(key) }

// MergeAt merges the region containing key with its right neighbour.
func (cl *Cluster) MergeAt(key []byte) bool {
	region, _, _, _ := cl.C.GetRegionByKey(mocktikv.NewMvccKey(key))
	if region == nil || len(region.EndKey) == 0 {
		return false
	}
	// find the neighbour whose start is region.EndKey
	for _, r := range cl.C.GetAllRegions() {
		if bytes.Equal(r.Meta.StartKey, region.EndKey) {
			cl.C.VerifMerge(region.Id, r.Meta.Id)
			if cl.Sim != nil {
				cl.Sim.Count("topo.merge")
			}
			return true
		}
	}
	return false
}

// MoveLeaderOf transfers the leader of the region containing key to its next peer.
func (cl *Cluster) MoveLeaderOf(key []byte) bool {
	region, leader, _, _ := cl.C.GetRegionByKey(mocktikv.NewMvccKey(key))
	if region == nil || len(region.Peers) < 2 {
		return false
	}
	idx := 0
	for i, p := range region.Peers {
		if leader != nil && p.Id == leader.Id {
			idx = i
		}
	}
	next := region.Peers[(idx+1)%len(region.Peers)]
	cl.C.ChangeLeader(region.Id, next.Id)
	if cl.Sim != nil {
		cl.Sim.Count("topo.leader-move")
	}
	return true
}

// WriteRec is one MVCC write record of a key.
type WriteRec struct {
	StartTS  uint64
	CommitTS uint64
	Kind     kvrpcpb.Op // Op_Put, Op_Del, Op_Lock, Op_Rollback
	Value    []byte
}

// LockRec is the lock on a key.
type LockRec struct {
	StartTS uint64
	Primary []byte
	Kind    kvrpcpb.Op
	Value   []byte
}

// KeyTruth is the full MVCC state of one key (writes in descending commit ts).
type KeyTruth struct {
	Key    []byte
	Lock   *LockRec
	Writes []WriteRec
}

// Truth is the MVCC ground truth read directly from the backend.
type Truth map[string]*KeyTruth

// Dumper reads the ground truth of a key from a backend.
type Dumper interface {
	MvccGetByKey(key []byte) *kvrpcpb.MvccInfo
	// VerifDumpLocks lists every lock with all of its fields.
	VerifDumpLocks() []*kvrpcpb.LockInfo
}

// DumpTruth reads the MVCC records of keys from the backend object directly.
func DumpTruth(d Dumper, keys [][]byte) Truth {
	t := Truth{}
	for _, k := range keys {
		info := d.MvccGetByKey(k)
		kt := &KeyTruth{Key: k}
		if info != nil {
			if info.Lock != nil {
				kt.Lock = &LockRec{StartTS: info.Lock.StartTs, Primary: info.Lock.Primary, Kind: info.Lock.Type, Value: info.Lock.ShortValue}
			}
			for i, w := range info.Writes {
				rec := WriteRec{StartTS: w.StartTs, CommitTS: w.CommitTs, Kind: w.Type}
				if i < len(info.Values) {
					rec.Value = info.Values[i].Value
				} else {
					rec.Value = w.ShortValue
				}
				kt.Writes = append(kt.Writes, rec)
			}
			sort.SliceStable(kt.Writes, func(i, j int) bool { return kt.Writes[i].CommitTS > kt.Writes[j].CommitTS })
		}
		t[string(k)] = kt
	}
	return t
}

// ValueAt returns the value visible at ts (nil,false when absent).
func (kt *KeyTruth) ValueAt(ts uint64) ([]byte, bool) {
	if kt == nil {
		return nil, false
	}
	for _, w := range kt.Writes {
		if w.CommitTS > ts {
			continue
		}
		switch w.Kind {
		case kvrpcpb.Op_Put:
			return w.Value, true
		case kvrpcpb.Op_Del:
			return nil, false
		}
	}
	return nil, false
}

// Describe renders the current region layout.
func (cl *Cluster) Describe() string {
	rs := cl.C.GetAllRegions()
	sort.Slice(rs, func(i, j int) bool { return bytes.Compare(rs[i].Meta.StartKey, rs[j].Meta.StartKey) < 0 })
	out := ""
	for _, r := range rs {
		out += fmt.Sprintf("[r%d %q..%q v%d c%d] ", r.Meta.Id, mocktikv.MvccKey(r.Meta.StartKey).Raw(), mocktikv.MvccKey(r.Meta.EndKey).Raw(), r.Meta.RegionEpoch.GetVersion(), r.Meta.RegionEpoch.GetConfVer())
	}
	return out
}
