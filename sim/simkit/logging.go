package simkit

import (
	"os"

	"github.com/pingcap/log"
	"go.uber.org/zap"
	"go.uber.org/zap/zapcore"
)

// QuietLogs replaces the global logger of the code under test: nothing is
// written unless VERIF_VERBOSE is set (logging must not do I/O or perturb runs).
func QuietLogs() {
	if os.Getenv("VERIF_VERBOSE") != "" {
		return
	}
	lvl := zap.NewAtomicLevelAt(zapcore.FatalLevel + 1)
	l := zap.New(zapcore.NewNopCore())
	log.ReplaceGlobals(l, &log.ZapProperties{Level: lvl})
}
