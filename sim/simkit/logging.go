package simkit

import (
	"fmt"
	"os"
	"runtime"
	"sync"

	"github.com/pingcap/log"
	"go.uber.org/zap"
	"go.uber.org/zap/zapcore"
)

var (
	fatalMu sync.Mutex
	fatals  []string
)

type fatalHook struct{}

// OnWrite handles a Fatal log of the code under test. The library would have ended the process
// here, possibly while holding locks, so the run cannot be continued safely: the violation is
// written out as a replay file of the current run, announced on stderr, and the worker exits with
// status 4, which the driver understands.
func (fatalHook) OnWrite(ce *zapcore.CheckedEntry, fields []zapcore.Field) {
	enc := zapcore.NewMapObjectEncoder()
	for _, f := range fields {
		f.AddTo(enc)
	}
	msg := fmt.Sprintf("%s %v (at %s)", ce.Message, enc.Fields, ce.Caller.TrimmedPath())
	fatalMu.Lock()
	fatals = append(fatals, msg)
	fatalMu.Unlock()
	if FatalExit != nil {
		FatalExit(msg)
	}
	runtime.Goexit()
}

// FatalExit is installed by the runner: it persists the current run and exits the process.
var FatalExit func(msg string)

// TakeFatals returns and clears the Fatal logs recorded since the last call.
func TakeFatals() []string {
	fatalMu.Lock()
	defer fatalMu.Unlock()
	out := fatals
	fatals = nil
	return out
}

// QuietLogs replaces the global logger of the code under test: nothing is
// written unless VERIF_VERBOSE is set (logging must not do I/O or perturb runs);
// a Fatal log does not kill the worker process but is recorded (see TakeFatals).
func QuietLogs() {
	if os.Getenv("VERIF_VERBOSE") != "" {
		l, p, err := log.InitLogger(&log.Config{Level: "info"}, zap.WithFatalHook(fatalHook{}))
		if err == nil {
			log.ReplaceGlobals(l, p)
		}
		return
	}
	lvl := zap.NewAtomicLevelAt(zapcore.FatalLevel)
	l := zap.New(zapcore.NewNopCore(), zap.WithFatalHook(fatalHook{}))
	log.ReplaceGlobals(l, &log.ZapProperties{Level: lvl})
}
