package simkit

import (
	"context"
	"fmt"
	"sync"
	"time"

	"github.com/pingcap/kvproto/pkg/metapb"
	pd "github.com/tikv/pd/client"
	"github.com/tikv/pd/client/clients/router"
	"github.com/tikv/pd/client/clients/tso"
	"github.com/tikv/pd/client/opt"
	"github.com/tikv/pd/client/pkg/caller"
)

// TSRecord is one timestamp issued by the simulated TSO.
type TSRecord struct {
	Client int
	TS     uint64
	Seq    uint64 // global stamp at allocation
}

// TSO is the timestamp allocator shared by all simulated PD clients of a run.
type TSO struct {
	mu       sync.Mutex
	physical int64
	logical  int64
	Issued   []TSRecord
	Skew     time.Duration // added to the simulated clock
}

const tsoLogicalBits = 18

// Alloc issues the next timestamp (strictly increasing).
func (t *TSO) Alloc(client int, s *Sim) uint64 {
	t.mu.Lock()
	defer t.mu.Unlock()
	now := time.Now().Add(t.Skew).UnixMilli()
	if now > t.physical {
		t.physical = now
		t.logical = 0
	} else {
		t.logical++
		if t.logical >= 1<<tsoLogicalBits {
			t.physical++
			t.logical = 0
		}
	}
	ts := uint64(t.physical)<<tsoLogicalBits | uint64(t.logical)
	t.Issued = append(t.Issued, TSRecord{Client: client, TS: ts, Seq: s.Stamp()})
	return ts
}

// Max returns the largest timestamp issued so far.
func (t *TSO) Max() uint64 {
	t.mu.Lock()
	defer t.mu.Unlock()
	if len(t.Issued) == 0 {
		return 0
	}
	return t.Issued[len(t.Issued)-1].TS
}

// Snapshot returns a copy of the issuance log.
func (t *TSO) Snapshot() []TSRecord {
	t.mu.Lock()
	defer t.mu.Unlock()
	return append([]TSRecord(nil), t.Issued...)
}

// PD is the pd.Client of one simulated client process. Region and store
// queries are served by the embedded client (the repository's mock PD over the
// shared mocktikv.Cluster); timestamps come from the shared TSO and every call
// crosses the simulator.
type PD struct {
	pd.Client
	Sim  *Sim
	Net  *Net
	ID   int
	TSO  *TSO
	lat  *Hasher
	n    int
	cutN int
	mu   sync.Mutex
	// ParkQueries makes region/store queries cross the simulator as events
	// (otherwise they are answered in place).
	ParkQueries bool
	// FailTSO returns an error for a TSO request when it answers true.
	FailTSO func(n int) bool
}

// NewPD wraps inner for client id.
func NewPD(s *Sim, n *Net, id int, t *TSO, inner pd.Client) *PD {
	return &PD{Client: inner, Sim: s, Net: n, ID: id, TSO: t, lat: NewHasher(s.Seed, fmt.Sprintf("pdlat%d", id))}
}

// WithCallerComponent implements pd.Client (the mock returns itself, which would unwrap us).
func (p *PD) WithCallerComponent(caller.Component) pd.Client { return p }

// Close implements pd.Client.
func (p *PD) Close() {}

type tsResult struct {
	ts  uint64
	err error
}

type tsFuture struct {
	p   *PD
	ch  chan tsResult
	ctx context.Context
}

func (f *tsFuture) Wait() (int64, int64, error) {
	select {
	case r := <-f.ch:
		if r.err != nil {
			if r.err == ErrSimCut {
				f.p.cutStagger()
			}
			return 0, 0, r.err
		}
		return int64(r.ts >> tsoLogicalBits), int64(r.ts & (1<<tsoLogicalBits - 1)), nil
	case <-f.ctx.Done():
		return 0, 0, f.ctx.Err()
	case <-f.p.Net.CutCh(f.p.ID):
		f.p.cutStagger()
		return 0, 0, ErrSimCut
	case <-f.p.Net.Down():
		return 0, 0, ErrSimCut
	}
}

func (p *PD) nextKey(kind string) string {
	p.mu.Lock()
	p.n++
	k := fmt.Sprintf("%s%d", kind, p.n)
	p.mu.Unlock()
	return k
}

func (p *PD) startTS(ctx context.Context) *tsFuture {
	f := &tsFuture{p: p, ch: make(chan tsResult, 1), ctx: ctx}
	if p.Net.IsCut(p.ID) {
		f.ch <- tsResult{0, ErrSimCut}
		return f
	}
	if p.Net.TSOFate(p.ID) != Deliver {
		f.ch <- tsResult{0, ErrSimCut}
		return f
	}
	p.mu.Lock()
	p.n++
	n := p.n
	p.mu.Unlock()
	key := fmt.Sprintf("tso%d", n)
	lat1 := 100*time.Microsecond + time.Duration(p.lat.U64(key+"a")%uint64(2*time.Millisecond))
	lat2 := 100*time.Microsecond + time.Duration(p.lat.U64(key+"b")%uint64(2*time.Millisecond))
	p.Sim.Submit(fmt.Sprintf("pd%d:%s", p.ID, key), lat1, p.lat.U64(key+"t"), func() {
		if p.Net.IsCut(p.ID) {
			return
		}
		if p.FailTSO != nil && p.FailTSO(n) {
			p.Sim.Count("fault.tso-error")
			p.Sim.Submit("pdresp", lat2, p.lat.U64(key+"u"), func() { f.ch <- tsResult{0, ErrSimConn} })
			return
		}
		ts := p.TSO.Alloc(p.ID, p.Sim)
		p.Sim.Submit("pdresp", lat2, p.lat.U64(key+"u"), func() { f.ch <- tsResult{ts, nil} })
	})
	return f
}

// GetTS implements pd.Client.
func (p *PD) GetTS(ctx context.Context) (int64, int64, error) { return p.startTS(ctx).Wait() }

// GetTSAsync implements pd.Client.
func (p *PD) GetTSAsync(ctx context.Context) tso.TSFuture { return p.startTS(ctx) }

// GetLocalTS implements pd.Client.
func (p *PD) GetLocalTS(ctx context.Context, _ string) (int64, int64, error) { return p.GetTS(ctx) }

// GetLocalTSAsync implements pd.Client.
func (p *PD) GetLocalTSAsync(ctx context.Context, _ string) tso.TSFuture { return p.GetTSAsync(ctx) }

// GetMinTS implements pd.Client.
func (p *PD) GetMinTS(ctx context.Context) (int64, int64, error) { return p.GetTS(ctx) }

func pdCall[T any](p *PD, ctx context.Context, kind string, fn func() (T, error)) (T, error) {
	var zero T
	if p.Net.IsCut(p.ID) {
		p.cutStagger()
		return zero, ErrSimCut
	}
	if !p.ParkQueries {
		return fn()
	}
	type res struct {
		v   T
		err error
	}
	ch := make(chan res, 1)
	key := p.nextKey(kind)
	lat1 := 100*time.Microsecond + time.Duration(p.lat.U64(key+"a")%uint64(2*time.Millisecond))
	lat2 := 100*time.Microsecond + time.Duration(p.lat.U64(key+"b")%uint64(2*time.Millisecond))
	p.Sim.Submit(fmt.Sprintf("pd%d:%s", p.ID, key), lat1, p.lat.U64(key+"t"), func() {
		v, err := fn()
		p.Sim.Submit("pdresp", lat2, p.lat.U64(key+"u"), func() { ch <- res{v, err} })
	})
	select {
	case r := <-ch:
		return r.v, r.err
	case <-ctx.Done():
		return zero, ctx.Err()
	case <-p.Net.CutCh(p.ID):
		p.cutStagger()
		return zero, ErrSimCut
	case <-p.Net.Down():
		return zero, ErrSimCut
	}
}

// cutStagger: a call of a dead client fails after a few nanoseconds of simulated time, a different number each time.
// If it failed in no time at all, the retry loops of the dead client's goroutines (whole-millisecond back-off sleeps
// from one common instant) would keep waking at identical instants, and the order in which the runtime serves two
// timers of one instant is not decided by the simulator.
func (p *PD) cutStagger() {
	p.mu.Lock()
	p.cutN++
	n := p.cutN
	p.mu.Unlock()
	time.Sleep(time.Duration(1+(n*7919)%99991) * time.Nanosecond)
}

// GetRegion implements pd.Client.
func (p *PD) GetRegion(ctx context.Context, key []byte, opts ...opt.GetRegionOption) (*router.Region, error) {
	return pdCall(p, ctx, "getregion", func() (*router.Region, error) { return p.Client.GetRegion(ctx, key, opts...) })
}

// GetPrevRegion implements pd.Client.
func (p *PD) GetPrevRegion(ctx context.Context, key []byte, opts ...opt.GetRegionOption) (*router.Region, error) {
	return pdCall(p, ctx, "getprev", func() (*router.Region, error) { return p.Client.GetPrevRegion(ctx, key, opts...) })
}

// GetRegionByID implements pd.Client.
func (p *PD) GetRegionByID(ctx context.Context, id uint64, opts ...opt.GetRegionOption) (*router.Region, error) {
	return pdCall(p, ctx, "getbyid", func() (*router.Region, error) { return p.Client.GetRegionByID(ctx, id, opts...) })
}

// ScanRegions implements pd.Client.
func (p *PD) ScanRegions(ctx context.Context, s, e []byte, limit int, opts ...opt.GetRegionOption) ([]*router.Region, error) {
	return pdCall(p, ctx, "scan", func() ([]*router.Region, error) { return p.Client.ScanRegions(ctx, s, e, limit, opts...) })
}

// BatchScanRegions implements pd.Client.
func (p *PD) BatchScanRegions(ctx context.Context, rs []router.KeyRange, limit int, opts ...opt.GetRegionOption) ([]*router.Region, error) {
	return pdCall(p, ctx, "bscan", func() ([]*router.Region, error) { return p.Client.BatchScanRegions(ctx, rs, limit, opts...) })
}

// GetStore implements pd.Client.
func (p *PD) GetStore(ctx context.Context, id uint64, opts ...opt.GetStoreOption) (*metapb.Store, error) {
	return pdCall(p, ctx, "getstore", func() (*metapb.Store, error) { return p.Client.GetStore(ctx, id, opts...) })
}

// GetAllStores implements pd.Client.
func (p *PD) GetAllStores(ctx context.Context, opts ...opt.GetStoreOption) ([]*metapb.Store, error) {
	return pdCall(p, ctx, "getallstores", func() ([]*metapb.Store, error) { return p.Client.GetAllStores(ctx, opts...) })
}
