// Package simkit is the deterministic simulator shared by all engines.
//
// One run executes inside one testing/synctest bubble: the clock is fake and
// advances only when every goroutine of the bubble is durably blocked. Every
// RPC to TiKV, every PD call and every guarded yield point of the code under
// test is turned into an Event that parks its goroutine; the simulator loop,
// which runs on its own goroutine, is the only place where events are released,
// server handlers are executed and faults are injected. All choices are a pure
// function of (seed, stable identity of the event).
package simkit

import (
	"container/heap"
	"fmt"
	"os"
	"sort"
	"sync"
	"sync/atomic"
	"testing/synctest"
	"time"
)

// Event is one unit of simulated work, executed on the simulator goroutine at
// simulated time Due.
type Event struct {
	Due   time.Duration // offset from the start of the run
	Tie   uint64        // identity-derived tie breaker
	Order uint64        // submission order (last resort tie breaker)
	Name  string
	Run   func()
	index int
}

type eventHeap []*Event

func (h eventHeap) Len() int { return len(h) }
func (h eventHeap) Less(i, j int) bool {
	if h[i].Due != h[j].Due {
		return h[i].Due < h[j].Due
	}
	if h[i].Tie != h[j].Tie {
		return h[i].Tie < h[j].Tie
	}
	return h[i].Order < h[j].Order
}
func (h eventHeap) Swap(i, j int) { h[i], h[j] = h[j], h[i]; h[i].index = i; h[j].index = j }
func (h *eventHeap) Push(x any)   { e := x.(*Event); e.index = len(*h); *h = append(*h, e) }
func (h *eventHeap) Pop() any {
	old := *h
	n := len(old)
	e := old[n-1]
	old[n-1] = nil
	*h = old[:n-1]
	return e
}

// Limits bound one run.
type Limits struct {
	MaxEvents  int
	MaxSimTime time.Duration
}

// Sim is the simulator of one run. Create it inside the bubble.
// evlog (VERIF_EVLOG=<file>): every event the simulator runs, with its instant - a debugging aid for divergences.
var evlog = func() *os.File {
	if p := os.Getenv("VERIF_EVLOG"); p != "" {
		f, _ := os.Create(p)
		return f
	}
	return nil
}()

// EvLog writes a line to the event log, if one is kept.
func EvLog(format string, a ...any) {
	if evlog != nil {
		fmt.Fprintf(evlog, format+"\n", a...)
	}
}

type Sim struct {
	Seed   uint64
	start  time.Time
	mu     sync.Mutex
	inbox  []*Event
	q      eventHeap
	wake   chan struct{}
	order  uint64
	seq    atomic.Uint64 // global event sequence number for history stamps
	Limits Limits

	Events   int
	Aborted  string // non-empty: the run hit a budget; oracles must not judge liveness-free claims on it
	stats    map[string]int
	statsMu  sync.Mutex
	occ      map[string]int
	Log      *Ring
	OnAbort  func()
	stopping atomic.Bool
	sched    *Hasher
	running  atomic.Bool
	// OnQuiescent hooks run on the simulator goroutine whenever every goroutine of the bubble is
	// durably blocked (before the next event is taken) and once more when the loop ends; a hook
	// returns true when it released somebody (the loop then waits for quiescence again).
	OnQuiescent []func() bool
}

// New creates a simulator. Must be called inside the bubble.
func New(seed uint64) *Sim {
	s := &Sim{
		Seed:   seed,
		start:  time.Now(),
		wake:   make(chan struct{}, 1),
		Limits: Limits{MaxEvents: 20000, MaxSimTime: 20 * time.Minute},
		stats:  map[string]int{},
		occ:    map[string]int{},
		Log:    NewRing(400),
	}
	s.sched = NewHasher(seed, "sched")
	return s
}

// Now is the simulated time since the start of the run.
func (s *Sim) Now() time.Duration { return time.Since(s.start) }

// Stamp returns the next global sequence number (used to order API invocations
// and returns in recorded histories).
func (s *Sim) Stamp() uint64 { return s.seq.Add(1) }

// Count increments a named statistic (fault kinds fired, reach probes).
func (s *Sim) Count(name string) { s.CountN(name, 1) }

// CountN adds n to a named statistic.
func (s *Sim) CountN(name string, n int) {
	s.statsMu.Lock()
	s.stats[name] += n
	s.statsMu.Unlock()
}

// Stats returns a copy of the statistics.
func (s *Sim) Stats() map[string]int {
	s.statsMu.Lock()
	defer s.statsMu.Unlock()
	m := make(map[string]int, len(s.stats))
	for k, v := range s.stats {
		m[k] = v
	}
	return m
}

// Occ returns how many times key was seen before (0 for the first) and counts it.
// Only called on the simulator goroutine or under the caller's own ordering.
func (s *Sim) Occ(key string) int {
	s.mu.Lock()
	defer s.mu.Unlock()
	n := s.occ[key]
	s.occ[key] = n + 1
	return n
}

// Running reports whether the simulator loop is processing events.
func (s *Sim) Running() bool { return s.running.Load() }

// Wake makes the simulator loop look at its hooks and inbox again.
func (s *Sim) Wake() {
	select {
	case s.wake <- struct{}{}:
	default:
	}
}

// Submit schedules fn to run on the simulator goroutine after delay d.
// It may be called from any goroutine of the bubble.
func (s *Sim) Submit(name string, d time.Duration, tie uint64, fn func()) {
	ev := &Event{Due: s.Now() + d, Tie: tie, Name: name, Run: fn}
	s.mu.Lock()
	s.order++
	ev.Order = s.order
	s.inbox = append(s.inbox, ev)
	s.mu.Unlock()
	select {
	case s.wake <- struct{}{}:
	default:
	}
}

func (s *Sim) drain() {
	s.mu.Lock()
	in := s.inbox
	s.inbox = nil
	s.mu.Unlock()
	// canonical order among events that arrived during the same quiescence
	// interval: by (Due, Tie) – the heap does this; Order is only the last resort.
	for _, e := range in {
		heap.Push(&s.q, e)
	}
}

// Run executes main on a new goroutine and processes events until main returns.
// It returns the abort reason ("" if main ended normally).
func (s *Sim) Run(main func()) string {
	done := make(chan struct{})
	s.running.Store(true)
	defer func() {
		s.running.Store(false)
		for _, h := range s.OnQuiescent {
			h()
		}
	}()
	go func() {
		defer close(done)
		main()
	}()
	for {
		synctest.Wait()
		select {
		case <-done:
			// let remaining due events go: nobody waits for them.
			return s.Aborted
		default:
		}
		released := false
		for _, h := range s.OnQuiescent {
			if h() {
				released = true
			}
		}
		if released {
			continue
		}
		s.drain()
		if s.Aborted == "" {
			if s.Events > s.Limits.MaxEvents {
				s.abort("max-events")
			} else if s.Now() > s.Limits.MaxSimTime {
				s.abort("max-sim-time")
			}
		}
		if s.q.Len() == 0 {
			// nothing scheduled: wait for a submission, for main to end, or let the
			// fake clock run to the next timer of the code under test.
			select {
			case <-s.wake:
			case <-done:
			case <-time.After(time.Minute):
			}
			continue
		}
		ev := s.q[0]
		now := s.Now()
		if ev.Due > now {
			t := time.NewTimer(ev.Due - now)
			select {
			case <-s.wake:
			case <-done:
			case <-t.C:
			}
			t.Stop()
			continue
		}
		heap.Pop(&s.q)
		s.Events++
		if evlog != nil {
			fmt.Fprintf(evlog, "%d %s\n", now, ev.Name)
		}
		ev.Run()
	}
}

func (s *Sim) abort(why string) {
	s.Aborted = why
	s.Count("abort." + why)
	if s.OnAbort != nil {
		s.OnAbort()
	}
}

// Abort ends the useful part of the run (budget exhausted, internal trouble).
func (s *Sim) Abort(why string) {
	if s.Aborted == "" {
		s.abort(why)
	}
}

// Sleep advances simulated time for the calling goroutine.
func (s *Sim) Sleep(d time.Duration) { time.Sleep(d) }

// SortedKeys is a helper for deterministic map iteration.
func SortedKeys[V any](m map[string]V) []string {
	ks := make([]string, 0, len(m))
	for k := range m {
		ks = append(ks, k)
	}
	sort.Strings(ks)
	return ks
}

// Ring is a small in-memory log (no I/O, no clock reads besides the fake one).
type Ring struct {
	mu   sync.Mutex
	buf  []string
	next int
	full bool
}

// NewRing creates a ring of n lines.
func NewRing(n int) *Ring { return &Ring{buf: make([]string, n)} }

// Addf appends a line.
func (r *Ring) Addf(format string, args ...any) {
	line := fmt.Sprintf(format, args...)
	r.mu.Lock()
	r.buf[r.next] = line
	r.next++
	if r.next == len(r.buf) {
		r.next = 0
		r.full = true
	}
	r.mu.Unlock()
}

// Lines returns the content, oldest first.
func (r *Ring) Lines() []string {
	r.mu.Lock()
	defer r.mu.Unlock()
	var out []string
	if r.full {
		out = append(out, r.buf[r.next:]...)
	}
	out = append(out, r.buf[:r.next]...)
	return out
}

// Settle lets the goroutines of closed components run their shutdown timers
// (goleveldb waits one second after Close) so that the bubble ends empty.
func Settle() {
	time.Sleep(3 * time.Second)
	synctest.Wait()
}
